"""Array cases: JSON spec <-> numpy.ma arrays, stub producers, running one command, comparison
of an implementation result with reference cells."""
from __future__ import annotations

import math
from fractions import Fraction as F

import numpy

from .core import Failure
from .ref import commands as R
from .ref import val as V
from .ref.val import Val

INPUT_PARAM = {}
for _c in R.UNARY:
    INPUT_PARAM[_c] = ("InFieldName",)
for _c in R.BINARY:
    INPUT_PARAM[_c] = ("A", "B")
for _c in R.NARY:
    INPUT_PARAM[_c] = ("InFieldNames",)


def command_class(name):
    from mpilot.libraries.eems import basic, fuzzy

    cls = getattr(basic, name, None) or getattr(fuzzy, name, None)
    if cls is None:
        raise KeyError(name)
    return cls


def make_array(spec, shape=None):
    """spec: {"data": flat list, "mask": None | flat list of 0/1, "dtype": str}; shape overrides spec['shape']."""
    shape = tuple(shape if shape is not None else spec.get("shape") or [len(spec["data"])])
    data = relayout(numpy.array(spec["data"], dtype=spec.get("dtype", "float64")).reshape(shape), spec.get("layout"))
    mask = spec.get("mask")
    if mask is None:
        return numpy.ma.array(data, copy=False)
    return numpy.ma.array(data, mask=relayout(numpy.array(mask, dtype=bool).reshape(shape), spec.get("layout")), copy=False)


def relayout(a, layout):
    """The same logical array in another memory layout: "f" = Fortran order, "strided" = a view into a larger
    buffer (every second element along the last axis), "reversed" = negative strides.  Commands must not care."""
    if not layout or layout == "c" or a.size == 0 or a.ndim == 0:
        return a
    if layout == "f":
        return numpy.asfortranarray(a)
    if layout == "strided":
        big = numpy.zeros(a.shape[:-1] + (a.shape[-1] * 2,), dtype=a.dtype)
        big[..., ::2] = a
        big[..., 1::2] = 77
        return big[..., ::2]
    if layout == "reversed":
        return numpy.ascontiguousarray(a[..., ::-1])[..., ::-1]
    return a


def stub(name, arr, fuzzy=False):
    """A finished producer, exactly as tests/utils.py:create_command_with_result does."""
    from mpilot.commands import Command

    command = Command(name)
    if fuzzy:
        command.is_fuzzy = True
    command.is_finished = True
    command._result = arr
    return command


def build_command(cmd, producers, params, name="Result", program=None):
    from mpilot.arguments import Argument

    cls = command_class(cmd)
    names = INPUT_PARAM[cmd]
    args = []
    if len(names) == 1 and cmd in R.NARY:
        args.append(Argument(names[0], list(producers), 1))
    else:
        for n, p in zip(names, producers):
            args.append(Argument(n, p, 1))
    line = 2
    for k, v in params.items():
        args.append(Argument(k, v, line))
        line += 1
    return cls(name, args, program=program, lineno=1)


def run_command(cmd, arrays, params, fuzzy_inputs=None, aliases=None):
    """Run one command on fresh stub producers through `.result` (cleaning included).

    aliases: [[i, j], ...] -- input j is the very same producer (and array object) as input i: a result listed twice.
    Returns ("ok", result) or ("err", exception)."""
    if fuzzy_inputs is None:
        fuzzy_inputs = cmd in R.FUZZY_INPUT
    producers = [stub("In%d" % i, a, fuzzy_inputs) for i, a in enumerate(arrays)]
    for i, j in aliases or []:
        if i < len(producers) and j < len(producers):
            producers[j] = producers[i]
    command = build_command(cmd, producers, params)
    try:
        return "ok", command.result
    except Exception as exc:  # classified by the caller
        return "err", exc


def exc_name(exc):
    from mpilot.exceptions import UnexpectedError

    if isinstance(exc, UnexpectedError):
        return "UnexpectedError(%s)" % type(exc.exc).__name__
    return type(exc).__name__


def is_mpilot_error(exc):
    from mpilot.exceptions import MPilotError, UnexpectedError

    return isinstance(exc, MPilotError) and not isinstance(exc, UnexpectedError)


def cells_of(arr):
    """Flat list of reference cells (exact Vals / None) of an input array."""
    mask = numpy.ma.getmaskarray(arr).ravel()
    data = numpy.ma.getdata(arr).ravel()
    out = []
    for m, x in zip(mask, data):
        if m:
            out.append(None)
        else:
            x = x.item()
            out.append(Val(F(x)))
    return out


def input_class(arrays):
    dt = "+".join(sorted(set(str(numpy.ma.getdata(a).dtype) for a in arrays)))
    rank = arrays[0].ndim if arrays else 0
    return "%s/rank%d/n%d" % (dt, rank, len(arrays))


def compare(result, ref_cells, shape, sigbase, check_values=True, stats=None, floor=None, exact=False):
    """Compare an implementation result with reference cells.

    Returns a list of Failures with signatures `<sigbase>|<kind>`.  `stats`, if given, is a
    dict updated with counts: compared, loose, unstable."""
    fails = []
    if not isinstance(result, numpy.ndarray):
        return [Failure("%s|not_an_array" % sigbase, "result is %r" % type(result))]
    if tuple(result.shape) != tuple(shape):
        return [Failure("%s|shape" % sigbase, "result shape %r, inputs %r" % (tuple(result.shape), tuple(shape)))]
    mask = numpy.ma.getmaskarray(result).ravel()
    data = numpy.ma.getdata(result).ravel()
    for i, ref in enumerate(ref_cells):
        if ref is R.UNSTABLE:
            if stats is not None:
                stats["unstable"] = stats.get("unstable", 0) + 1
            continue
        if ref is not None and data.dtype.kind in "iu" and abs(ref.v) >= 2 ** 62:
            # fixed-width integer overflow is outside the domain of the value properties (inputs are small lattice points;
            # only long chains of integer products get here): the cell is not compared, and the caller is told
            if stats is not None:
                stats["int_overflow"] = stats.get("int_overflow", 0) + 1
            continue
        if ref is None:
            if not mask[i]:
                fails.append(Failure("%s|mask_lost" % sigbase, "cell %d should be missing, is %r" % (i, data[i].item())))
                break
            continue
        if mask[i]:
            fails.append(Failure("%s|mask_extra" % sigbase, "cell %d should be %r, is missing" % (i, float(ref.v))))
            break
        if not check_values:
            continue
        x = data[i].item()
        if isinstance(x, bool):
            x = int(x)
        if stats is not None:
            stats["compared"] = stats.get("compared", 0) + 1
            if V.loose(ref):
                stats["loose"] = stats.get("loose", 0) + 1
        if isinstance(x, float) and (math.isnan(x) or math.isinf(x)):
            fails.append(Failure("%s|value" % sigbase, "cell %d is %r, expected %r" % (i, x, float(ref.v))))
            break
        if exact and F(x) != ref.v:
            # integer arithmetic on integer inputs is exact: no tolerance applies
            fails.append(Failure("%s|value" % sigbase, "cell %d is %r, the exact integer result is %d" % (i, x, ref.v)))
            break
        if not (V.close(x, ref) if floor is None else V.close(x, ref, floor)):
            fails.append(
                Failure("%s|value" % sigbase, "cell %d is %r, expected %r (bound %.3g)" % (i, x, float(ref.v), float(ref.e)))
            )
            break
    return fails


def spec_of(arr, fuzzy=False):
    """JSON spec of an array (inverse of make_array)."""
    data = numpy.ma.getdata(arr)
    m = numpy.ma.getmask(arr)
    return {
        "data": data.ravel().tolist(),
        "mask": None if m is numpy.ma.nomask else numpy.ma.getmaskarray(arr).ravel().astype(int).tolist(),
        "dtype": str(data.dtype),
        "shape": list(arr.shape),
    }
