"""Exact-rational values with a forward error bound for the float64 computation.

Val(v, e): v is the exact mathematical value (Fraction), e >= |float64 result - v| provided
the implementation evaluates the documented formula in IEEE double arithmetic.  e == 0 means
"the float result is exactly v" (inputs exact and the exact result representable, so the
correctly rounded IEEE operation returns it).

Comparisons on inexact values closer than their bounds raise Unstable: the reference refuses
to predict a decision the float computation could legitimately take either way.
"""
from fractions import Fraction as F
import math

U = F(1, 2 ** 52)
K = 8  # slack per operation


class Unstable(Exception):
    """A discontinuous decision depends on rounding; the cell (or result) is not compared."""


class Undefined(Exception):
    """The documented mapping is undefined for these inputs (e.g. statistics of < 2 distinct values)."""


def representable(q):
    """Is the rational q exactly a float64?"""
    if q == 0:
        return True
    try:
        f = float(q)
    except OverflowError:
        return False
    if math.isinf(f) or f == 0.0:
        return False
    return F(f) == q


class Val(object):
    __slots__ = ("v", "e")

    def __init__(self, v, e=0):
        self.v = v if isinstance(v, F) else F(v)
        self.e = e if isinstance(e, F) else F(e)

    def __repr__(self):
        return "Val(%r±%.3g)" % (float(self.v), float(self.e))

    @property
    def exact(self):
        return self.e == 0


def lift(x):
    if isinstance(x, Val):
        return x
    if isinstance(x, float):
        return Val(F(x))
    return Val(F(x))


def _finish(v, e_in, scale):
    """Result of one IEEE operation with exact value v, inherited error e_in."""
    if e_in == 0 and representable(v):
        return Val(v, 0)
    return Val(v, e_in + K * U * scale)


def add(a, b):
    a, b = lift(a), lift(b)
    v = a.v + b.v
    return _finish(v, a.e + b.e, abs(a.v) + abs(b.v))


def neg(a):
    a = lift(a)
    return Val(-a.v, a.e)


def sub(a, b):
    return add(a, neg(b))


def mul(a, b):
    a, b = lift(a), lift(b)
    v = a.v * b.v
    return _finish(v, abs(a.v) * b.e + abs(b.v) * a.e + a.e * b.e, abs(v))


def div(a, b):
    """a / b; caller must have handled b == 0 exactly."""
    a, b = lift(a), lift(b)
    if abs(b.v) <= 2 * b.e:
        raise Unstable("divisor within its error bound of zero")
    v = a.v / b.v
    e_in = (a.e + abs(v) * b.e) / (abs(b.v) - b.e) if (a.e or b.e) else F(0)
    return _finish(v, e_in, abs(v))


def cmp(a, b):
    """-1, 0, +1; Unstable if the float computation could decide otherwise."""
    a, b = lift(a), lift(b)
    d = a.v - b.v
    t = a.e + b.e
    if t > 0 and abs(d) <= 2 * t:
        raise Unstable("comparison within error bound")
    return (d > 0) - (d < 0)


def vmax(a, b):
    a, b = lift(a), lift(b)
    c = cmp(a, b)
    return a if c >= 0 else b


def vmin(a, b):
    a, b = lift(a), lift(b)
    c = cmp(a, b)
    return a if c <= 0 else b


def soft_max(a, b):
    """max as a 1-Lipschitz function (no decision exposed)."""
    a, b = lift(a), lift(b)
    return Val(max(a.v, b.v), max(a.e, b.e))


def soft_min(a, b):
    a, b = lift(a), lift(b)
    return Val(min(a.v, b.v), max(a.e, b.e))


def clamp(a, lo, hi):
    a = lift(a)
    lo, hi = F(lo), F(hi)
    return Val(min(max(a.v, lo), hi), a.e)


def vsum(xs):
    """Sum in unspecified association order (python sum, numpy pairwise, += loops)."""
    xs = [lift(x) for x in xs]
    v = sum((x.v for x in xs), F(0))
    e_in = sum((x.e for x in xs), F(0))
    mag = sum((abs(x.v) for x in xs), F(0))
    if e_in == 0:
        # every partial sum is exact when all terms are multiples of a common power of two q
        # and the total magnitude stays below 2**53 q
        den = 1
        for x in xs:
            den = max(den, x.v.denominator)
        if den & (den - 1) == 0 and all(den % x.v.denominator == 0 for x in xs) and mag * den < 2 ** 53:
            if all(representable(x.v) for x in xs):
                return Val(v, 0)
    return Val(v, e_in + K * U * len(xs) * mag)


def mean(xs):
    xs = [lift(x) for x in xs]
    return div(vsum(xs), Val(len(xs)))


def sqrt(a):
    a = lift(a)
    if a.v < 0:
        if -a.v > a.e:
            raise Undefined("sqrt of negative")
        a = Val(0, a.e - a.v)
    if a.v == 0:
        if a.e == 0:
            return Val(0, 0)
        return Val(0, F(math.sqrt(float(a.e))) * 2 + U)
    # exact perfect square?
    n, d = a.v.numerator, a.v.denominator
    rn, rd = math.isqrt(n), math.isqrt(d)
    if rn * rn == n and rd * rd == d:
        r = F(rn, rd)
        if a.e == 0 and representable(r) and representable(a.v):
            return Val(r, 0)
    else:
        r = F(math.sqrt(float(a.v)))
    if a.e * 4 >= a.v:
        raise Unstable("sqrt near zero")
    # |sqrt(x+d) - sqrt(x)| <= d / sqrt(x - d) ; r itself is within 1ulp of the true root
    return Val(r, a.e / F(math.sqrt(float(a.v - a.e))) * F(101, 100) + K * U * r)


def std(xs):
    """Population standard deviation, the way numpy.ma.std computes it."""
    xs = [lift(x) for x in xs]
    m = mean(xs)
    sq = [mul(sub(x, m), sub(x, m)) for x in xs]
    return sqrt(mean(sq))


def close(impl, ref, floor=F(1, 10 ** 9)):
    """Is the float `impl` an acceptable result for the reference value `ref`?"""
    ref = lift(ref)
    if impl != impl or impl in (float("inf"), float("-inf")):
        return False
    tol = ref.e * 2 + floor * max(1, abs(ref.v))
    return abs(F(impl) - ref.v) <= tol


def loose(ref):
    ref = lift(ref)
    return ref.e > F(1, 10 ** 6) * max(1, abs(ref.v))
