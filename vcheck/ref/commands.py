"""Reference semantics of the EEMS data commands, written from the user docs
(docs/user/lib-eems-basic.rst, lib-eems-fuzzy.rst), the property statements and the EEMS
definitions -- not imported from mpilot.

Inputs are flat lists of cells; a cell is a Val (exact rational + error bound) or None
(missing).  A result cell is a Val, None (missing) or UNSTABLE (not predicted).  Whole-array
results raise Unstable / Undefined, and documented errors are raised as Expect(<class name>).
"""
from fractions import Fraction as F

from . import val as V
from .val import Val, Unstable, Undefined, lift


class _Unstable(object):
    def __repr__(self):
        return "UNSTABLE"


UNSTABLE = _Unstable()


class Expect(Exception):
    """The documented outcome is an MPilot error of this class name."""

    def __init__(self, name):
        Exception.__init__(self, name)
        self.name = name


FUZZY = (
    "CvtToFuzzy", "CvtToFuzzyZScore", "CvtToFuzzyCat", "CvtToFuzzyCurve", "CvtToFuzzyMeanToMid",
    "CvtToFuzzyCurveZScore", "CvtToBinary", "FuzzyUnion", "FuzzyWeightedUnion", "FuzzySelectedUnion",
    "FuzzyOr", "FuzzyAnd", "FuzzyXOr", "FuzzyNot",
)
NARY_NONFUZZY = ("Sum", "Multiply", "Minimum", "Maximum", "Mean", "WeightedSum", "WeightedMean")
NARY_FUZZY = ("FuzzyUnion", "FuzzyWeightedUnion", "FuzzySelectedUnion", "FuzzyOr", "FuzzyAnd", "FuzzyXOr")
NARY = NARY_NONFUZZY + NARY_FUZZY
BINARY = ("AMinusB", "ADividedByB")
UNARY = (
    "Copy", "Normalize", "NormalizeZScore", "NormalizeCat", "NormalizeCurve", "NormalizeMeanToMid",
    "NormalizeCurveZScore", "CvtToFuzzy", "CvtToFuzzyZScore", "CvtToFuzzyCat", "CvtToFuzzyCurve",
    "CvtToFuzzyMeanToMid", "CvtToFuzzyCurveZScore", "CvtToBinary", "FuzzyNot", "CvtFromFuzzy",
)
ALL = UNARY + BINARY + NARY
FUZZY_INPUT = NARY_FUZZY + ("FuzzyNot", "CvtFromFuzzy")
COMMUTATIVE = ("Sum", "Multiply", "Minimum", "Maximum", "Mean", "FuzzyUnion", "FuzzyOr", "FuzzyAnd", "FuzzyXOr",
               "FuzzySelectedUnion")
# commands whose mapping depends on whole-array statistics of the valid cells
STATISTICAL = ("Normalize", "NormalizeZScore", "NormalizeMeanToMid", "NormalizeCurveZScore", "CvtToFuzzyZScore",
               "CvtToFuzzyMeanToMid", "CvtToFuzzyCurveZScore")


def num(x):
    return lift(x)


def cellwise(fn, inputs):
    out = []
    for cells in zip(*inputs):
        if any(c is None for c in cells):
            out.append(None)
        elif any(c is UNSTABLE for c in cells):
            out.append(UNSTABLE)
        else:
            try:
                out.append(fn(*cells))
            except Unstable:
                out.append(UNSTABLE)
    return out


def valid(cells):
    if any(c is UNSTABLE for c in cells):
        raise Unstable("statistic over an unpredicted cell")
    return [c for c in cells if c is not None]


def vmin_all(xs):
    m = xs[0]
    for x in xs[1:]:
        m = V.vmin(m, x)
    return m


def vmax_all(xs):
    m = xs[0]
    for x in xs[1:]:
        m = V.vmax(m, x)
    return m


def distinct_count(xs):
    """Number of distinct values (exact decision), used for the 'at least two distinct' rule."""
    seen = []
    for x in xs:
        if not any(V.cmp(x, y) == 0 for y in seen):
            seen.append(x)
            if len(seen) >= 2:
                break
    return len(seen)


def fclamp(x):
    return V.clamp(x, -1, 1)


# ----------------------------------------------------------------------------- arithmetic

def _divide(a, b):
    if b.v == 0 and b.e == 0:
        return None
    if abs(b.v) <= 2 * b.e:
        raise Unstable("divisor may be zero")
    return V.div(a, b)


def _weights(params, n):
    w = params.get("Weights", [])
    if len(w) != n:
        raise Expect("MismatchedWeights")
    return [num(x) for x in w]


def _soft_reduce(fn, cells):
    r = cells[0]
    for c in cells[1:]:
        r = fn(r, c)
    return r


def _linear(x, x_true, x_false, y_true, y_false):
    """Linear map sending x_true -> y_true and x_false -> y_false, evaluated the EEMS way."""
    r = V.sub(x, x_true)
    r = V.mul(r, V.sub(y_false, y_true))
    r = V.div(r, V.sub(x_false, x_true))
    return V.add(r, y_true)


def _curve(points, x):
    """points: sorted list of (raw, normal) Vals; piecewise linear, flat outside."""
    if V.cmp(x, points[0][0]) <= 0:
        return points[0][1]
    if V.cmp(x, points[-1][0]) > 0:
        return points[-1][1]
    for i in range(1, len(points)):
        pr, pn = points[i - 1]
        r, n = points[i]
        if V.cmp(x, pr) > 0 and V.cmp(x, r) <= 0:
            m = V.div(V.sub(n, pn), V.sub(r, pr))
            b = V.sub(pn, V.mul(m, pr))
            return V.add(V.mul(x, m), b)
    raise Unstable("no segment")


def _sorted_points(raws, normals):
    pts = list(zip(raws, normals))
    # insertion sort with exact / stable comparisons
    out = []
    for p in pts:
        i = 0
        while i < len(out) and V.cmp(out[i][0], p[0]) < 0:
            i += 1
        out.insert(i, p)
    return out


def _has_duplicates(xs):
    for i in range(len(xs)):
        for j in range(i + 1, len(xs)):
            if V.cmp(xs[i], xs[j]) == 0:
                return True
    return False


def _zscore(cells, tz, fz, start, end):
    xs = valid(cells)
    if not xs:
        raise Undefined("no valid cells")
    if distinct_count(xs) < 2:
        raise Undefined("zero standard deviation")
    m = V.mean(xs)
    s = V.std(xs)
    x1 = V.add(m, V.mul(s, tz))
    x2 = V.add(m, V.mul(s, fz))
    if V.cmp(tz, fz) == 0:
        raise Undefined("equal z thresholds")

    def f(x):
        return V.clamp(_linear(x, x1, x2, end, start), start.v, end.v)

    return cellwise(f, [cells])


def _mean_to_mid(cells, ignore_zeros, normals):
    xs = valid(cells)
    if not xs:
        raise Undefined("no valid cells")
    low = vmin_all(xs)
    high = vmax_all(xs)
    if ignore_zeros:
        xs = [x for x in xs if V.cmp(x, 0) != 0]
    if not xs:
        raise Undefined("only zeros")
    mean = V.mean(xs)
    below = [x for x in xs if V.cmp(x, mean) <= 0]
    above = [x for x in xs if V.cmp(x, mean) > 0]
    if not above or not below:
        raise Undefined("no values above the mean")
    low_mean = V.mean(below)
    high_mean = V.mean(above)
    raws = [low, low_mean, mean, high_mean, high]
    normals = list(normals)
    if len(normals) != 5:
        raise Undefined("MeanToMid needs five normal values")
    if V.cmp(raws[-1], raws[-2]) == 0:
        del raws[-2]
        del normals[-2]
    if V.cmp(raws[0], raws[1]) == 0:
        del raws[1]
        del normals[1]
    if _has_duplicates(raws):
        raise Expect("DuplicateRawValues")
    pts = _sorted_points(raws, normals)
    return cellwise(lambda x: _curve(pts, x), [cells])


def _curve_zscore(cells, zs, normals):
    if len(zs) != len(normals):
        raise Expect("MixedArrayLengths")
    if not zs:
        raise Undefined("no control points")
    xs = valid(cells)
    if not xs:
        raise Undefined("no valid cells")
    if distinct_count(xs) < 2:
        raise Undefined("zero standard deviation")
    if _has_duplicates(zs):
        raise Undefined("duplicate z scores")
    m = V.mean(xs)
    s = V.std(xs)
    raws = [V.add(m, V.mul(z, s)) for z in zs]
    pts = _sorted_points(raws, normals)
    return cellwise(lambda x: _curve(pts, x), [cells])


def _cat(cells, raws, normals, default):
    if len(raws) != len(normals):
        raise Expect("MixedArrayLengths")
    if _has_duplicates(raws):
        raise Expect("DuplicateRawValues")

    def f(x):
        for r, n in zip(raws, normals):
            if V.cmp(x, r) == 0:
                return n
        return default

    return cellwise(f, [cells])


def _curve_cmd(cells, raws, normals):
    if len(raws) != len(normals):
        raise Expect("MixedArrayLengths")
    if _has_duplicates(raws):
        raise Expect("DuplicateRawValues")
    if not raws:
        raise Undefined("no control points")
    pts = _sorted_points(raws, normals)
    return cellwise(lambda x: _curve(pts, x), [cells])


def _to_fuzzy(cells, params):
    direction = params.get("Direction")
    if direction is not None and direction != "" and direction not in ("LowToHigh", "HighToLow"):
        raise Expect("InvalidDirection")
    xs = None
    if "TrueThreshold" not in params or "FalseThreshold" not in params:
        xs = valid(cells)
        if not xs:
            raise Undefined("no valid cells")
    if "FalseThreshold" in params:
        f_thr = num(params["FalseThreshold"])
    else:
        f_thr = vmax_all(xs) if direction == "HighToLow" else vmin_all(xs)
    if "TrueThreshold" in params:
        t_thr = num(params["TrueThreshold"])
    else:
        t_thr = vmin_all(xs) if direction == "HighToLow" else vmax_all(xs)
    if V.cmp(t_thr, f_thr) == 0:
        raise Expect("InvalidThresholds")
    return cellwise(lambda x: fclamp(_linear(x, t_thr, f_thr, num(1), num(-1))), [cells])


def _selected(cells_list, params):
    n = len(cells_list)
    k = params["NumberToConsider"]
    which = params["TruestOrFalsest"]
    if n < k:
        raise Expect("InvalidNumberToConsider")
    if which not in ("Truest", "Falsest"):
        raise Expect("InvalidTruestOrFalsest")
    if k != int(k) or k < 1:
        raise Undefined("NumberToConsider outside 1..n")
    k = int(k)

    def f(*xs):
        order = sorted(xs, key=lambda c: c.v)
        pick = order[-k:] if which == "Truest" else order[:k]
        emax = max(c.e for c in xs)
        m = V.mean([Val(c.v, 0) for c in pick])
        return fclamp(Val(m.v, m.e + emax))

    return cellwise(f, cells_list)


def _xor(cells_list):
    if len(cells_list) < 2:
        raise Undefined("exclusive or of one input")

    def f(*xs):
        order = sorted(xs, key=lambda c: c.v)
        emax = max(c.e for c in xs)
        t1 = Val(order[-1].v, emax)
        t2 = Val(order[-2].v, emax)
        if V.cmp(t1, -1) <= 0:
            return Val(-1)
        r = V.sub(t1, V.div(V.mul(V.sub(t1, t2), V.add(t2, 1)), V.add(t1, 1)))
        return fclamp(r)

    return cellwise(f, cells_list)


def evaluate(cmd, inputs, params, shapes=None):
    """inputs: list of cell lists (for unary commands a list with one element).

    shapes: optional list of array shapes, one per input, for the shape-mismatch rule.
    """
    params = dict(params)
    if cmd in NARY or cmd in BINARY:
        if cmd in NARY and not inputs:
            if cmd in ("WeightedSum", "WeightedMean", "FuzzyWeightedUnion"):
                if len(params.get("Weights", [])) != 0:
                    raise Expect("MismatchedWeights")
            raise Expect("EmptyInputs")
        if cmd in ("WeightedSum", "WeightedMean", "FuzzyWeightedUnion"):
            weights = _weights(params, len(inputs))
        if shapes is not None and len(set(map(tuple, shapes))) > 1:
            raise Expect("MixedArrayShapes")

    if cmd == "Copy":
        return list(inputs[0])
    if cmd == "AMinusB":
        return cellwise(V.sub, inputs)
    if cmd == "ADividedByB":
        return cellwise(_divide, inputs)
    if cmd == "Sum":
        return cellwise(lambda *xs: V.vsum(xs), inputs)
    if cmd == "Multiply":
        return cellwise(lambda *xs: _soft_reduce(V.mul, xs), inputs)
    if cmd == "Minimum":
        return cellwise(lambda *xs: _soft_reduce(V.soft_min, xs), inputs)
    if cmd == "Maximum":
        return cellwise(lambda *xs: _soft_reduce(V.soft_max, xs), inputs)
    if cmd == "Mean":
        return cellwise(lambda *xs: V.mean(xs), inputs)
    if cmd in ("WeightedSum", "WeightedMean", "FuzzyWeightedUnion"):
        wsum = V.vsum(weights)

        def f(*xs):
            s = V.vsum([V.mul(x, w) for x, w in zip(xs, weights)])
            if cmd == "WeightedSum":
                return s
            if wsum.v == 0:
                return None
            r = V.div(s, wsum)
            return fclamp(r) if cmd == "FuzzyWeightedUnion" else r

        return cellwise(f, inputs)

    if cmd == "Normalize":
        cells = inputs[0]
        start = num(params.get("StartVal", 0))
        end = num(params.get("EndVal", 1))
        xs = valid(cells)
        if not xs:
            raise Undefined("no valid cells")
        if distinct_count(xs) < 2:
            raise Undefined("zero data range")
        lo, hi = vmin_all(xs), vmax_all(xs)

        def f(x):
            r = V.mul(V.sub(x, lo), V.sub(start, end))
            r = V.div(r, V.sub(lo, hi))
            return V.add(r, start)

        return cellwise(f, [cells])
    if cmd == "NormalizeZScore":
        if "TrueThresholdZScore" not in params or "FalseThresholdZScore" not in params:
            raise Undefined("default z thresholds: docs and code disagree")
        start = num(params.get("StartVal", 0))
        end = num(params.get("EndVal", 1))
        if V.cmp(start, end) >= 0:
            raise Undefined("StartVal >= EndVal")
        return _zscore(inputs[0], num(params["TrueThresholdZScore"]), num(params["FalseThresholdZScore"]), start, end)
    if cmd == "CvtToFuzzyZScore":
        tz = num(params.get("TrueThresholdZScore", 1))
        fz = num(params.get("FalseThresholdZScore", -1))
        return _zscore(inputs[0], tz, fz, num(-1), num(1))
    if cmd in ("NormalizeCat", "CvtToFuzzyCat"):
        fz = cmd == "CvtToFuzzyCat"
        raws = [num(x) for x in params["RawValues"]]
        normals = [num(x) for x in params["FuzzyValues" if fz else "NormalValues"]]
        default = num(params["DefaultFuzzyValue" if fz else "DefaultNormalValue"])
        out = _cat(inputs[0], raws, normals, default)
        return [fclamp(c) if isinstance(c, Val) and fz else c for c in out]
    if cmd in ("NormalizeCurve", "CvtToFuzzyCurve"):
        fz = cmd == "CvtToFuzzyCurve"
        raws = [num(x) for x in params["RawValues"]]
        normals = [num(x) for x in params["FuzzyValues" if fz else "NormalValues"]]
        out = _curve_cmd(inputs[0], raws, normals)
        return [fclamp(c) if isinstance(c, Val) and fz else c for c in out]
    if cmd in ("NormalizeMeanToMid", "CvtToFuzzyMeanToMid"):
        fz = cmd == "CvtToFuzzyMeanToMid"
        normals = [num(x) for x in params["FuzzyValues" if fz else "NormalValues"]]
        out = _mean_to_mid(inputs[0], bool(params["IgnoreZeros"]), normals)
        return [fclamp(c) if isinstance(c, Val) and fz else c for c in out]
    if cmd in ("NormalizeCurveZScore", "CvtToFuzzyCurveZScore"):
        fz = cmd == "CvtToFuzzyCurveZScore"
        zs = [num(x) for x in params["ZScoreValues"]]
        normals = [num(x) for x in params["FuzzyValues" if fz else "NormalValues"]]
        out = _curve_zscore(inputs[0], zs, normals)
        return [fclamp(c) if isinstance(c, Val) and fz else c for c in out]
    if cmd == "CvtToFuzzy":
        return _to_fuzzy(inputs[0], params)
    if cmd == "CvtToBinary":
        direction = params["Direction"]
        if direction not in ("LowToHigh", "HighToLow"):
            raise Expect("InvalidDirection")
        thr = num(params["Threshold"])
        low, high = (Val(0), Val(1)) if direction == "LowToHigh" else (Val(1), Val(0))
        return cellwise(lambda x: low if V.cmp(x, thr) < 0 else high, [inputs[0]])
    if cmd == "CvtFromFuzzy":
        t_thr = num(params["TrueThreshold"])
        f_thr = num(params["FalseThreshold"])
        if V.cmp(t_thr, f_thr) == 0:
            raise Expect("InvalidThresholds")
        return cellwise(lambda x: _linear(x, num(1), num(-1), t_thr, f_thr), [inputs[0]])
    if cmd == "FuzzyNot":
        return cellwise(lambda x: fclamp(V.neg(x)), [inputs[0]])
    if cmd == "FuzzyUnion":
        return cellwise(lambda *xs: fclamp(V.mean(xs)), inputs)
    if cmd == "FuzzyOr":
        return cellwise(lambda *xs: fclamp(_soft_reduce(V.soft_max, xs)), inputs)
    if cmd == "FuzzyAnd":
        return cellwise(lambda *xs: fclamp(_soft_reduce(V.soft_min, xs)), inputs)
    if cmd == "FuzzySelectedUnion":
        return _selected(inputs, params)
    if cmd == "FuzzyXOr":
        return _xor(inputs)
    raise KeyError(cmd)
