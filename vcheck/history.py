"""Process history that must not matter: things an earlier, unrelated use of the library in the same process may
have done before the case under test is executed (C11 states this explicitly for parsing; the other properties
quantify over every model, whatever ran before)."""
from __future__ import annotations

import hashlib

V2_TEXT = 'READ(InFileName = "no_such_input_file.csv", InFieldName = a)\nSUM(InFieldNames = [a, a], NewFieldName = s)\n'


def maybe_earlier_v2_load(key):
    """Deterministically (by a digest of `key`) load an EEMS 2.0 style source first, as an earlier user of the process
    could have.  Returns True when it did."""
    if int(hashlib.sha1(repr(key).encode()).hexdigest()[:2], 16) % 3:
        return False
    try:
        from mpilot.program import Program

        Program.from_source(V2_TEXT)
    except Exception:
        pass
    return True
