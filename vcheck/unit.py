"""Unit-level evaluation of one data command on stub producers, against the reference."""
from __future__ import annotations

import numpy

from . import arr as A
from .core import sstr, Failure
from .ref import commands as R
from .ref.val import Unstable, Undefined


# commands whose result on integer inputs (and integer weights) is an integer computed without rounding
INTEGER_CLOSED = ("Sum", "Multiply", "AMinusB", "Minimum", "Maximum", "Copy", "WeightedSum")


class Outcome(object):
    """What the reference says and what the implementation did for one unit case."""

    def __init__(self):
        self.ref = None          # list of cells | None
        self.ref_kind = None     # "cells" | "expect" | "undefined" | "unstable"
        self.expect = None       # expected error class name
        self.status = None       # "ok" | "err"
        self.result = None       # array or exception
        self.arrays = None
        self.sig = None
        self.params = None


def reference(cmd, arrays, params):
    cells = [A.cells_of(a) for a in arrays]
    try:
        return "cells", R.evaluate(cmd, cells, params, [a.shape for a in arrays])
    except R.Expect as e:
        return "expect", e.name
    except Undefined as e:
        return "undefined", str(e)
    except Unstable as e:
        return "unstable", str(e)


def evaluate(case):
    o = Outcome()
    cmd = case["cmd"]
    shape = case.get("shape")
    o.arrays = [A.make_array(s, s.get("shape") or shape) for s in case["arrays"]]
    o.sig = "%s|%s" % (cmd, A.input_class(o.arrays))
    o.params = case["params"]
    o.ref_kind, ref = reference(cmd, o.arrays, case["params"])
    if o.ref_kind == "cells" and cmd in R.STATISTICAL and any(numpy.ma.getdata(a).dtype == numpy.float32 for a in o.arrays):
        # single-precision data whose spread is so small that its square is no normal number of that type (< 1e-37): the
        # statistics underflow to zero there -- a limit of the element type, like integer overflow; not compared
        valid = numpy.concatenate([numpy.ma.compressed(a).astype(float) for a in o.arrays])
        if valid.size and 0 < float(numpy.var(valid)) < 1e-36:
            o.ref_kind = "undefined"
    if o.ref_kind == "cells":
        o.ref = ref
    elif o.ref_kind == "expect":
        o.expect = ref
    params = case["params"]
    if case.get("weights_as") and "Weights" in params:
        # the same weights handed over as numpy scalars, as a caller of the programming interface may do
        t = numpy.dtype(case["weights_as"]).type
        # (only when the numpy type holds every weight exactly: 0.333 is another number in single precision)
        if all(float(t(w)) == w for w in params["Weights"]) and not (case["weights_as"].startswith("int") and any(w != int(w) for w in params["Weights"])):
            params = dict(params, Weights=[t(w) for w in params["Weights"]])
    o.status, o.result = A.run_command(cmd, o.arrays, params, aliases=case.get("aliases"), fuzzy_inputs=case.get("inputs_fuzzy"))
    return o


def judge(o, rec=None, check_values=True, stats=None):
    """Failures of the implementation outcome w.r.t. the reference outcome."""
    if o.ref_kind in ("undefined", "unstable"):
        if rec is not None:
            rec.exclude("%s:%s" % (o.ref_kind, o.sig.split("|")[0]))
        return []
    if o.ref_kind == "expect":
        if o.status == "err" and type(o.result).__name__ == o.expect:
            try:
                str(o.result)
            except Exception as exc:
                return [Failure("%s|str(%s)_raises:%s" % (o.sig, o.expect, type(exc).__name__), repr(exc))]
            return []
        got = "ok" if o.status == "ok" else A.exc_name(o.result)
        return [Failure("%s|expected:%s|got:%s" % (o.sig, o.expect, got), sstr(o.result)[:300])]
    if o.status == "err":
        return [Failure("%s|raises:%s" % (o.sig, A.exc_name(o.result)), sstr(o.result)[:300])]
    # single-precision inputs: results may be computed in float32 (unit round-off 6e-8), so the relative floor is wider
    from fractions import Fraction

    single = any(numpy.ma.getdata(a).dtype == numpy.float32 for a in o.arrays)
    cmd = o.sig.split("|")[0]
    weights = (o.params or {}).get("Weights", [])
    exact = (cmd in INTEGER_CLOSED and all(numpy.ma.getdata(a).dtype.kind in "iu" for a in o.arrays)
             and all(isinstance(w, int) and not isinstance(w, bool) for w in weights))
    return A.compare(o.result, o.ref, o.arrays[0].shape, o.sig, check_values=check_values, stats=stats,
                     floor=Fraction(1, 10 ** 5) if single else None, exact=exact)


def result_equal(a, b, tol=0.0):
    """Same shape and mask, and equal values at the non-missing cells."""
    if not isinstance(a, numpy.ndarray) or not isinstance(b, numpy.ndarray):
        return False
    if a.shape != b.shape:
        return False
    ma, mb = numpy.ma.getmaskarray(a), numpy.ma.getmaskarray(b)
    if not (ma == mb).all():
        return False
    da = numpy.ma.getdata(a)[~ma].astype(float)
    db = numpy.ma.getdata(b)[~mb].astype(float)
    if tol == 0.0:
        return bool(((da == db) | (numpy.isnan(da) & numpy.isnan(db))).all())
    scale = numpy.maximum(1.0, numpy.abs(da))
    with numpy.errstate(invalid="ignore"):
        return bool(((numpy.abs(da - db) <= tol * scale) | (da == db) | (numpy.isnan(da) & numpy.isnan(db))).all())
