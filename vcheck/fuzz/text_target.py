"""atheris (libFuzzer) target: arbitrary command-file text through Program.from_source(...).run().

Oracle (C13): the outcome is success, SyntaxError or an MPilotError whose str() renders; anything else is a crash,
and libFuzzer saves the input.  Run as a script:  python -m vcheck.fuzz.text_target <libFuzzer args...>
The working directory given in VCHECK_FUZZ_DIR holds input.csv, so valid models reach execute().
"""
import os
import sys

import atheris

with atheris.instrument_imports(include=["mpilot"]):
    from mpilot.exceptions import MPilotError
    from mpilot.program import Program

WORKDIR = os.environ.get("VCHECK_FUZZ_DIR") or os.getcwd()


def run_text(text):
    """-> None if the outcome is allowed, else a description string."""
    try:
        prog = Program.from_source(text, working_dir=WORKDIR)
        prog.run()
    except SyntaxError as exc:
        str(exc)
    except MPilotError as exc:
        try:
            str(exc)
        except Exception as e2:
            return "str(%s) raised %s" % (type(exc).__name__, type(e2).__name__)
    except RecursionError:
        return None  # deep nesting is CPython's limit, declared out of domain
    except Exception as exc:
        return "escaped %s" % type(exc).__name__
    return None


def TestOneInput(data):
    try:
        text = data.decode("utf-8")
    except UnicodeDecodeError:
        return
    if "OutFileName" in text or "EEMSWrite" in text or "PrintVars" in text:
        return  # no file or console output from inside the fuzzer
    why = run_text(text)
    if why is not None:
        raise RuntimeError("C13 oracle: " + why)


if __name__ == "__main__":
    atheris.Setup(sys.argv, TestOneInput)
    atheris.Fuzz()
