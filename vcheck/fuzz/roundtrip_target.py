"""atheris (libFuzzer) driving the Hypothesis strategy of abstract command files (C10): coverage feedback from
mpilot's parser steers which abstract programs / layouts are generated (`fuzz_one_input`), the round-trip oracle of
vcheck.props.c10 runs inside the target.  A failing case is written as JSON to $VCHECK_FUZZ_OUT before the target
raises, so the parent can replay it through the plain code path.
Run:  python -m vcheck.fuzz.roundtrip_target <corpus dir> -runs=N -seed=S ...
"""
import json
import os
import sys

import atheris

with atheris.instrument_imports(include=["mpilot"]):
    import mpilot.parser.parser  # noqa: F401

from hypothesis import HealthCheck, given, settings  # noqa: E402

from vcheck.core import Recorder, digest, dumps  # noqa: E402
from vcheck.gen import render as RD  # noqa: E402
from vcheck.props import c10  # noqa: E402
from vcheck.runner import load_known  # noqa: E402

OUT = os.environ.get("VCHECK_FUZZ_OUT") or os.getcwd()
REC = Recorder("C10", [k["signature"] for k in load_known("C10")])
COUNT = {"n": 0}


@settings(database=None, deadline=None, suppress_health_check=list(HealthCheck), max_examples=10 ** 9)
@given(RD.programs(max_commands=3))
def roundtrip(prog):
    COUNT["n"] += 1
    fails = [f for f in c10.check_roundtrip(prog, REC) if not REC.is_known(f)]
    if fails:
        path = os.path.join(OUT, "case-%s.json" % digest(prog))
        with open(path, "w") as f:
            f.write(dumps({"signature": fails[0].signature, "detail": str(fails[0].detail)[:1500], "case": prog}))
        raise RuntimeError("C10 oracle: " + fails[0].signature)


def at_exit_stats():
    with open(os.path.join(OUT, "stats.json"), "w") as f:
        json.dump({"cases": COUNT["n"], "labels": dict(REC.labels), "nontrivial": len(REC.nontrivial)}, f)


def TestOneInput(data):
    try:
        roundtrip.hypothesis.fuzz_one_input(data)
    finally:
        if COUNT["n"] % 25 == 0:
            at_exit_stats()  # atexit handlers do not run under libFuzzer: flush periodically


if __name__ == "__main__":
    atheris.Setup(sys.argv, TestOneInput)
    atheris.Fuzz()
