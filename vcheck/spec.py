"""Frozen declaration table of the built-in commands (DESIGN.md Appendix A), transcribed from
docs/user/lib-eems-*.rst and cross-read once against the pinned declarations.  It is the oracle for
well-formedness (C12/C13): a declaration that changes in the code shows up as a difference, not as a changed oracle.

kind strings:  path! (must exist) | path | string | number | boolean | datatype:<names> | numbers (list of number)
               data:nf | data:fz | data:any | datas:nf | datas:fz | datas:any | results (list of any result) | tuple
A trailing '?' marks an optional parameter.  Every command also accepts the optional `Metadata` tuple.
"""

BASIC, FUZZY, CSV, NETCDF = ("mpilot.libraries.eems.basic", "mpilot.libraries.eems.fuzzy",
                             "mpilot.libraries.eems.csv", "mpilot.libraries.eems.netcdf")

SPEC = {
    # name: (library, produces, is_fuzzy, {param: kind})
    "Copy": (BASIC, "data", False, {"InFieldName": "data:any"}),
    "AMinusB": (BASIC, "data", False, {"A": "data:nf", "B": "data:nf"}),
    "ADividedByB": (BASIC, "data", False, {"A": "data:nf", "B": "data:nf"}),
    "Sum": (BASIC, "data", False, {"InFieldNames": "datas:nf"}),
    "Multiply": (BASIC, "data", False, {"InFieldNames": "datas:nf"}),
    "Minimum": (BASIC, "data", False, {"InFieldNames": "datas:nf"}),
    "Maximum": (BASIC, "data", False, {"InFieldNames": "datas:nf"}),
    "Mean": (BASIC, "data", False, {"InFieldNames": "datas:nf"}),
    "WeightedSum": (BASIC, "data", False, {"InFieldNames": "datas:nf", "Weights": "numbers"}),
    "WeightedMean": (BASIC, "data", False, {"InFieldNames": "datas:nf", "Weights": "numbers"}),
    "Normalize": (BASIC, "data", False, {"InFieldName": "data:nf", "StartVal": "number?", "EndVal": "number?"}),
    "NormalizeZScore": (BASIC, "data", False, {"InFieldName": "data:nf", "TrueThresholdZScore": "number?",
                                               "FalseThresholdZScore": "number?", "StartVal": "number?", "EndVal": "number?"}),
    "NormalizeCat": (BASIC, "data", False, {"InFieldName": "data:nf", "RawValues": "numbers", "NormalValues": "numbers",
                                            "DefaultNormalValue": "number"}),
    "NormalizeCurve": (BASIC, "data", False, {"InFieldName": "data:nf", "RawValues": "numbers", "NormalValues": "numbers"}),
    "NormalizeMeanToMid": (BASIC, "data", False, {"InFieldName": "data:nf", "IgnoreZeros": "boolean", "NormalValues": "numbers"}),
    "NormalizeCurveZScore": (BASIC, "data", False, {"InFieldName": "data:nf", "ZScoreValues": "numbers", "NormalValues": "numbers"}),
    "PrintVars": (BASIC, "boolean", False, {"InFieldNames": "results", "OutFileName": "path?"}),
    "CvtToFuzzy": (FUZZY, "data", True, {"InFieldName": "data:nf", "TrueThreshold": "number?", "FalseThreshold": "number?",
                                         "Direction": "string?"}),
    "CvtToFuzzyZScore": (FUZZY, "data", True, {"InFieldName": "data:nf", "TrueThresholdZScore": "number?",
                                               "FalseThresholdZScore": "number?"}),
    "CvtToFuzzyCat": (FUZZY, "data", True, {"InFieldName": "data:nf", "RawValues": "numbers", "FuzzyValues": "numbers",
                                            "DefaultFuzzyValue": "number"}),
    "CvtToFuzzyCurve": (FUZZY, "data", True, {"InFieldName": "data:nf", "RawValues": "numbers", "FuzzyValues": "numbers"}),
    "CvtToFuzzyMeanToMid": (FUZZY, "data", True, {"InFieldName": "data:nf", "IgnoreZeros": "boolean", "FuzzyValues": "numbers"}),
    "CvtToFuzzyCurveZScore": (FUZZY, "data", True, {"InFieldName": "data:nf", "ZScoreValues": "numbers", "FuzzyValues": "numbers"}),
    "CvtToBinary": (FUZZY, "data", True, {"InFieldName": "data:nf", "Threshold": "number", "Direction": "string"}),
    "FuzzyUnion": (FUZZY, "data", True, {"InFieldNames": "datas:fz"}),
    "FuzzyOr": (FUZZY, "data", True, {"InFieldNames": "datas:fz"}),
    "FuzzyAnd": (FUZZY, "data", True, {"InFieldNames": "datas:fz"}),
    "FuzzyXOr": (FUZZY, "data", True, {"InFieldNames": "datas:fz"}),
    "FuzzyWeightedUnion": (FUZZY, "data", True, {"InFieldNames": "datas:fz", "Weights": "numbers"}),
    "FuzzySelectedUnion": (FUZZY, "data", True, {"InFieldNames": "datas:fz", "TruestOrFalsest": "string",
                                                 "NumberToConsider": "number"}),
    "FuzzyNot": (FUZZY, "data", True, {"InFieldName": "data:fz"}),
    "CvtFromFuzzy": (FUZZY, "data", False, {"InFieldName": "data:fz", "TrueThreshold": "number", "FalseThreshold": "number"}),
}
IO_SPEC = {
    CSV: {
        "EEMSRead": (CSV, "data", False, {"InFileName": "path!", "InFieldName": "string", "MissingVal": "number?",
                                          "DataType": "datatype:Float,Integer?", "ReturnType": "datatype:Float,Integer?",
                                          "NewFieldName": "string?"}),
        "EEMSWrite": (CSV, "boolean", False, {"OutFileName": "path", "OutFieldNames": "datas:any"}),
    },
    NETCDF: {
        "EEMSRead": (NETCDF, "data", False, {"InFileName": "path!", "InFieldName": "string", "MissingValue": "number?",
                                             "DataType": "datatype:Float,Integer,Positive Float,Positive Integer,Fuzzy?"}),
        "EEMSWrite": (NETCDF, "boolean", False, {"OutFileName": "path", "OutFieldNames": "datas:any",
                                                 "DimensionFileName": "path!", "DimensionFieldName": "string"}),
    },
}


def table(io=CSV):
    t = dict(SPEC)
    t.update(IO_SPEC[io])
    return t


def optional(kind):
    return kind.endswith("?")


def base(kind):
    return kind[:-1] if kind.endswith("?") else kind


def required_params(entry):
    return sorted(k for k, v in entry[3].items() if not optional(v))


def declared(cls):
    """The same facts read from a command class of the code under test, in the table's vocabulary."""
    from mpilot import params as P

    def kind_of(p):
        def res(rp, plural):
            if rp.output_type is None:
                return "results" if plural else "result"
            out = type(rp.output_type).__name__
            if out != "DataParameter":
                return ("%ss" if plural else "%s") % ("result:" + out)
            fz = {None: "any", True: "fz", False: "nf"}[rp.is_fuzzy]
            return ("datas:" if plural else "data:") + fz

        if isinstance(p, P.ResultParameter):
            k = res(p, False)
        elif isinstance(p, P.ListParameter):
            vt = p.value_type
            if isinstance(vt, P.ResultParameter):
                k = res(vt, True)
            elif isinstance(vt, P.NumberParameter):
                k = "numbers"
            else:
                k = "list:" + type(vt).__name__
        elif isinstance(p, P.PathParameter):
            k = "path!" if p.must_exist else "path"
        elif isinstance(p, P.DataTypeParameter):
            k = "datatype:" + ",".join(p.valid_types.keys())
        elif isinstance(p, P.NumberParameter):
            k = "number"
        elif isinstance(p, P.BooleanParameter):
            k = "boolean"
        elif isinstance(p, P.TupleParameter):
            k = "tuple"
        elif isinstance(p, P.StringParameter):
            k = "string"
        else:
            k = type(p).__name__
        return k + ("" if p.required else "?")

    out = cls.output
    produces = {"DataParameter": "data", "BooleanParameter": "boolean", "NoneType": "none"}.get(type(out).__name__, type(out).__name__)
    params = {k: kind_of(v) for k, v in cls.inputs.items() if k != "Metadata"}
    return (produces, bool(getattr(cls, "is_fuzzy", False)), params)
