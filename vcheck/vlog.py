"""Execution log shared by the test command library.  It lives outside the library package on purpose:
Program.load_commands re-executes library modules on every Program construction, which would duplicate any
module-level state kept inside them."""
LOG = []


def reset():
    del LOG[:]
