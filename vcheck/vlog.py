"""Execution log shared by the test command library.  It lives outside the library package on purpose:
Program.load_commands re-executes library modules on every Program construction, which would duplicate any
module-level state kept inside them."""


class ExecutionBudgetExceeded(RuntimeError):
    """The test commands of one case were entered far more often than the case has commands: something re-executes
    them over and over.  Raised from inside execute() so that a runaway evaluation ends instead of running for hours."""


class _Log(list):
    cap = None

    def append(self, item):
        list.append(self, item)
        if self.cap is not None and len(self) > self.cap:
            cap, self.cap = self.cap, None  # raise once; the check looks at the log afterwards
            raise ExecutionBudgetExceeded("more than %d log entries" % cap)


LOG = _Log()


def reset(cap=None):
    del LOG[:]
    LOG.cap = cap
