"""A property's slice of whole-model runs.

The unit-level parts of C03, C06, C07 and C08 run one command on fresh producers.  A command can also be wrong only
*in company*: it damages an input that another command reads afterwards, or it depends on what ran before it.  This
helper runs a generated model (vcheck.gen.models) through Program.from_source(...).run() -- via the machinery of the C02
check -- and hands back the failures that fall under the calling property: those of the commands it is about, or, for
C03, every disagreement about which cells are missing."""
from __future__ import annotations

from hypothesis import strategies as st

from .gen import models as M


class _Quiet(object):
    """Recorder stand-in: the labels and the non-triviality rule of C02 do not belong in another property's evidence."""

    def __getattr__(self, name):
        return lambda *a, **k: None


def model_cases(cmds=None, max_nodes=8):
    @st.composite
    def build(draw):
        model = draw(M.typed_models(max_nodes=max_nodes, cmds=cmds, clean=True))
        model["order2"] = list(draw(st.permutations(list(range(len(model["nodes"]))))))
        model["extra_on"] = draw(st.integers(0, 20))
        model["history"] = draw(st.sampled_from([None, None, None, "fail_first", "twin"]))
        return model

    return build()


def model_failures(model, rec, keep, label):
    """Failures of c02.check_model(model) whose signature satisfies keep(signature, command name)."""
    from .props import c02

    fails = c02.check_model(model, _Quiet())
    ncmd = len(model["nodes"]) - len(model["cols"])
    shared = len(set(i for n in model["nodes"] for i in n.get("inputs", []))) < sum(len(n.get("inputs", [])) for n in model["nodes"])
    rec.label(label)
    if ncmd >= 3 and shared:
        rec.nontrivial_case(model)
        rec.label(label + ":shared_inputs")
    return [f for f in fails if keep(f.signature, f.signature.split("|")[0])]
