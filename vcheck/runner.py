"""Entry point: ./check <ID> [--tier quick|thorough] [--replay FILE]

exit 0  property held on everything explored (KNOWN-FINDING lines may be printed)
exit 1  at least one `VIOLATION property=<id> replay=<path>` line was printed
exit 2  harness error (never a violation)
"""
from __future__ import annotations

import argparse
import glob
import importlib
import json
import os
import shutil
import subprocess
import sys
import tempfile
import time
import traceback

from .core import VERIF_DIR as _VD, Ctx, Failure, HarnessError, Recorder, digest, dumps, run_check


VERIF_DIR = _VD
OUT_DIR = os.environ.get("VERIF_OUT") or _VD


def load_known(prop):
    path = os.path.join(VERIF_DIR, "known_findings.json")
    if not os.path.exists(path):
        return []
    with open(path) as f:
        data = json.load(f)
    return [e for e in data.get("findings", []) if e.get("property") == prop]


def check_repo_binding():
    import mpilot

    repo = os.path.realpath(os.environ.get("VERIF_REPO", "/repo"))
    where = os.path.realpath(os.path.dirname(os.path.dirname(mpilot.__file__)))
    if where != repo:
        raise HarnessError("mpilot imported from %s, expected %s" % (where, repo))


def load_module(prop):
    return importlib.import_module("vcheck.props.%s" % prop.lower())


def write_replay(prop, failure_dict):
    os.makedirs(os.path.join(OUT_DIR, "replays"), exist_ok=True)
    payload = {
        "property": prop,
        "part": failure_dict["part"],
        "signature": failure_dict["signature"],
        "detail": failure_dict["detail"],
        "case": failure_dict["case"],
    }
    name = "%s-%s.json" % (prop, digest([failure_dict["part"], failure_dict["case"]]))
    path = os.path.join(OUT_DIR, "replays", name)
    with open(path, "w") as f:
        f.write(dumps(payload, indent=1))
    return path


def run_one(mod, part, case, rec):
    check = mod.PARTS[part]
    return run_check(check, case, rec)


def do_replay(mod, prop, path, known):
    with open(path) as f:
        payload = json.load(f)
    rec = Recorder(prop, [k["signature"] for k in known])
    fails = run_one(mod, payload["part"], payload["case"], rec)
    novel = [f for f in fails if not rec.is_known(f)]
    for f in fails:
        print("replay: %s: %s" % (f.signature, f.detail))
    if novel:
        print("VIOLATION property=%s replay=%s" % (prop, path))
        return 1
    print("replay: no violation")
    return 0


def shard_main(args):
    mod = load_module(args.prop)
    known = load_known(args.prop)
    tmp = tempfile.mkdtemp(prefix="vcheck-%s-%d-" % (args.prop, args.shard))
    ctx = Ctx(args.prop, args.tier, args.seed, args.shard, args.nshards, tmp)
    rec = Recorder(args.prop, [k["signature"] for k in known])
    cwd = os.getcwd()
    try:
        check_repo_binding()
        mod.run_shard(ctx, rec)
    finally:
        os.chdir(cwd)
        shutil.rmtree(tmp, ignore_errors=True)
    with open(args.partial, "w") as f:
        f.write(dumps(rec.to_json()))
    return 0


def pick_samples(rec, limit=14):
    out = []
    labels = sorted(rec.samples)
    i = 0
    while len(out) < limit and labels:
        progressed = False
        for lab in labels:
            lst = rec.samples[lab]
            if i < len(lst) and len(out) < limit:
                out.append({"label": lab, "case": lst[i]})
                progressed = True
        if not progressed:
            break
        i += 1
    return out


def parent_main(args):
    t0 = time.time()
    prop = args.prop
    mod = load_module(prop)
    known = load_known(prop)
    check_repo_binding()

    if args.replay:
        return do_replay(mod, prop, args.replay, known)

    # One warm-up parser before forking so that PLY regenerates its table at most once.
    from mpilot.parser.parser import Parser

    Parser()

    nshards = args.nshards or getattr(mod, "SHARDS", {}).get(args.tier, 16)
    scratch = tempfile.mkdtemp(prefix="vcheck-%s-parent-" % prop)
    rec = Recorder(prop, [k["signature"] for k in known])
    violations = []  # (signature, replay path)
    known_lines = []
    stale = []
    try:
        # --- replay tier: regressions and known-finding witnesses (plain code path) ----------
        reg_dir = os.path.join(VERIF_DIR, "regressions", prop)
        reg_n = 0
        ctx0 = Ctx(prop, args.tier, args.seed, 0, 1, scratch)
        if hasattr(mod, "setup_parent"):
            mod.setup_parent(ctx0)
        for path in sorted(glob.glob(os.path.join(reg_dir, "*.json"))):
            with open(path) as f:
                payload = json.load(f)
            reg_n += 1
            fails = run_one(mod, payload["part"], payload["case"], rec)
            novel = [f for f in fails if not rec.is_known(f)]
            if novel:
                violations.append((novel[0].signature, path, novel[0].detail))
        for entry in known:
            w = entry.get("witness")
            if not w:
                continue
            fails = run_one(mod, w["part"], w["case"], rec)
            if any(Recorder(prop, [entry["signature"]]).is_known(f) for f in fails):
                known_lines.append("KNOWN-FINDING: property=%s %s" % (prop, entry["what"]))
            else:
                stale.append(entry["signature"])
            for f in fails:
                if not rec.is_known(f):
                    p = write_replay(prop, {"part": w["part"], "signature": f.signature, "detail": f.detail, "case": w["case"]})
                    violations.append((f.signature, p, f.detail))

        # --- generated search, sharded ----------------------------------------------------------
        procs = []
        for i in range(nshards):
            partial = os.path.join(scratch, "partial-%d.json" % i)
            cmd = [
                sys.executable, "-W", "ignore", "-m", "vcheck.runner", prop,
                "--tier", args.tier, "--seed", str(args.seed),
                "--shard", str(i), "--nshards", str(nshards), "--partial", partial,
            ]
            log = open(os.path.join(scratch, "shard-%d.log" % i), "w")
            procs.append((i, partial, log, subprocess.Popen(cmd, stdout=log, stderr=subprocess.STDOUT, cwd=VERIF_DIR)))
        bad = []
        for i, partial, log, p in procs:
            rc = p.wait()
            log.close()
            if rc != 0 or not os.path.exists(partial):
                with open(log.name) as f:
                    bad.append((i, rc, f.read()[-4000:]))
                continue
            with open(partial) as f:
                rec.merge_json(json.load(f))
        if bad:
            for i, rc, text in bad:
                sys.stderr.write("shard %d exited %s:\n%s\n" % (i, rc, text))
            raise HarnessError("%d shard(s) failed" % len(bad))

        seen = set(v[0] for v in violations)
        for fd in rec.failures:
            if fd["signature"] in seen:
                continue
            seen.add(fd["signature"])
            path = write_replay(prop, fd)
            violations.append((fd["signature"], path, fd["detail"]))
    finally:
        shutil.rmtree(scratch, ignore_errors=True)

    wall = time.time() - t0
    samples = pick_samples(rec)
    if not samples:
        raise HarnessError("no samples recorded")
    exhaustive = bool(rec.exhaustive_parts) and set(rec.exhaustive_parts) >= set(rec.parts)
    evidence = {
        "property_id": prop,
        "tier": args.tier,
        "seed": args.seed,
        "level": mod.LEVEL,
        "coverage": {
            "evaluations": rec.evaluations,
            "distinct_nontrivial": len(rec.nontrivial),
            "rule": mod.RULE,
            "samples": samples,
            "labels": dict(sorted(rec.labels.items())),
            "cases_per_part": dict(sorted(rec.parts.items())),
            "exhaustive_parts": rec.exhaustive_parts,
            "exhaustive": exhaustive,
            "excluded_or_unasserted": dict(sorted(rec.excluded.items())),
            "known_finding_hits": dict(sorted(rec.known_hits.items())),
            "stale_known_findings": stale,
            "regression_cases_replayed": reg_n,
            "shards": nshards,
            "notes": rec.notes,
            "violation_signatures": [v[0] for v in violations],
        },
        "assumptions": list(mod.ASSUMPTIONS),
        "wall_s": round(wall, 2),
        "violations": len(violations),
    }
    os.makedirs(os.path.join(OUT_DIR, "evidence"), exist_ok=True)
    with open(os.path.join(OUT_DIR, "evidence", "%s.json" % prop), "w") as f:
        f.write(dumps(evidence, indent=1))
        f.write("\n")

    for line in known_lines:
        print(line)
    print(
        "%s tier=%s seed=%d evaluations=%d distinct_nontrivial=%d known_hits=%d wall=%.1fs"
        % (prop, args.tier, args.seed, rec.evaluations, len(rec.nontrivial), sum(rec.known_hits.values()), wall)
    )
    floors = getattr(mod, "LABEL_FLOORS", {})
    for lab, floor in sorted(floors.items()):
        if rec.labels.get(lab, 0) < floor:
            print("note: label %s seen %d times (< %d)" % (lab, rec.labels.get(lab, 0), floor))
    for sig, path, detail in violations:
        print("violation: %s: %s" % (sig, str(detail)[:600]))
        print("VIOLATION property=%s replay=%s" % (prop, path))
    return 1 if violations else 0


def main(argv=None):
    ap = argparse.ArgumentParser(prog="check")
    ap.add_argument("prop")
    ap.add_argument("--tier", default=os.environ.get("VERIF_TIER") or "quick", choices=["quick", "thorough"])
    ap.add_argument("--seed", type=int, default=None)
    ap.add_argument("--replay")
    ap.add_argument("--shard", type=int, default=None)
    ap.add_argument("--nshards", type=int, default=None)
    ap.add_argument("--partial")
    args = ap.parse_args(argv)
    args.prop = args.prop.upper()
    if args.seed is None:
        try:
            args.seed = int(os.environ.get("VERIF_SEED") or 1)
        except ValueError:
            args.seed = 1
    try:
        if args.shard is not None:
            return shard_main(args)
        return parent_main(args)
    except HarnessError as exc:
        sys.stderr.write("HARNESS ERROR: %s\n" % exc)
        return 2
    except Exception:
        sys.stderr.write("HARNESS ERROR (uncaught)\n%s\n" % traceback.format_exc())
        return 2


if __name__ == "__main__":
    sys.exit(main())
