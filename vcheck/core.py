"""Shared machinery: recorder, failures, Hypothesis driver, enumeration driver.

A *case* is a JSON-serialisable value.  Every property module provides
``check_case(case, rec) -> [Failure]``: a pure function that runs the real code on the case
and returns the violations it observed.  Hypothesis (or an enumeration) only produces cases;
replay files and regression files are cases, re-executed through the same function without
Hypothesis.
"""
from __future__ import annotations

import fnmatch
import hashlib
import json
import math
import os
import traceback
from collections import Counter

VERIF_DIR = os.path.dirname(os.path.dirname(os.path.abspath(__file__)))


class HarnessError(Exception):
    """Something is wrong with the harness itself (exit 2, never a VIOLATION)."""


class Failure(object):
    __slots__ = ("signature", "detail")

    def __init__(self, signature, detail=""):
        self.signature = signature
        self.detail = detail

    def __repr__(self):
        return "Failure(%s: %s)" % (self.signature, self.detail)


def _default(o):
    try:
        import numpy

        if isinstance(o, numpy.generic):
            return o.item()
        if isinstance(o, numpy.ndarray):
            return o.tolist()
    except Exception:
        pass
    if isinstance(o, (set, frozenset)):
        return sorted(o, key=repr)
    if isinstance(o, bytes):
        return o.decode("latin-1")
    return repr(o)


def dumps(case, **kw):
    return json.dumps(case, sort_keys=True, default=_default, ensure_ascii=True, **kw)


def digest(case):
    return hashlib.sha1(dumps(case).encode()).hexdigest()[:16]


def sstr(x):
    """str() of an object of the code under test that may itself raise."""
    try:
        return str(x)
    except Exception as exc:  # reported, never fatal for the harness
        return "<str() raised %s: %s>" % (type(exc).__name__, exc)


def peek(cmd):
    """The stored result of a command without triggering anything: the public `.result` of a finished command (which
    only returns the memoised value), else whatever is stored (None before the first run)."""
    if getattr(cmd, "is_finished", False):
        return cmd.result
    return getattr(cmd, "_result", None)


class Ctx(object):
    def __init__(self, prop, tier, seed, shard=0, nshards=1, tmp=None):
        self.prop = prop
        self.tier = tier
        self.seed = seed
        self.shard = shard
        self.nshards = nshards
        self.tmp = tmp

    @property
    def quick(self):
        return self.tier == "quick"

    def n(self, quick, thorough):
        """Per-shard example budget from total budgets for the two tiers."""
        total = quick if self.tier == "quick" else thorough
        try:  # VERIF_BUDGET_SCALE (default 1) is only used by tools/mutate.py to run many scaled-down checks in parallel
            total *= float(os.environ.get("VERIF_BUDGET_SCALE") or 1)
        except ValueError:
            pass
        return max(1, int(math.ceil(total / float(self.nshards))))

    def hseed(self, part, rnd=0):
        h = hashlib.sha1(("%s/%s/%d/%d/%d" % (self.prop, part, self.seed, self.shard, rnd)).encode()).hexdigest()
        return int(h[:12], 16)

    def mine(self, index):
        """Is the index-th item of an enumeration handled by this shard?"""
        return index % self.nshards == self.shard


class Recorder(object):
    MAX_SAMPLES_PER_LABEL = 2

    def __init__(self, prop, known=()):
        self.prop = prop
        self.evaluations = 0
        self.nontrivial = set()
        self.labels = Counter()
        self.excluded = Counter()
        self.known_hits = Counter()
        self.samples = {}  # label -> [case]
        self.failures = []  # dict(signature, detail, case, part)
        self.parts = Counter()
        self.exhaustive_parts = []
        self.notes = []
        self.known = list(known)  # signature patterns of listed findings

    # -- coverage bookkeeping ------------------------------------------------------
    def evaluated(self, n=1):
        self.evaluations += n

    def nontrivial_case(self, key):
        """key: any JSON-able value identifying the distinct non-trivial case."""
        self.nontrivial.add(key if isinstance(key, str) and len(key) == 16 else digest(key))

    def label(self, name, sample=None, n=1):
        self.labels[name] += n
        if sample is not None:
            lst = self.samples.setdefault(name, [])
            if len(lst) < self.MAX_SAMPLES_PER_LABEL:
                lst.append(sample)

    def exclude(self, why, n=1):
        self.excluded[why] += n

    # -- findings --------------------------------------------------------------------
    def is_known(self, failure):
        sig = failure.signature if isinstance(failure, Failure) else failure
        for pat in self.known:
            if sig == pat or fnmatch.fnmatchcase(sig, pat):
                self.known_hits[pat] += 1
                return True
        return False

    def add_failure(self, failure, case, part):
        self.failures.append(
            {"signature": failure.signature, "detail": str(failure.detail)[:2000], "case": case, "part": part}
        )

    # -- serialisation ---------------------------------------------------------------
    def to_json(self):
        return {
            "evaluations": self.evaluations,
            "nontrivial": sorted(self.nontrivial),
            "labels": dict(self.labels),
            "excluded": dict(self.excluded),
            "known_hits": dict(self.known_hits),
            "samples": self.samples,
            "failures": self.failures,
            "parts": dict(self.parts),
            "exhaustive_parts": self.exhaustive_parts,
            "notes": self.notes,
        }

    def merge_json(self, d):
        self.evaluations += d["evaluations"]
        self.nontrivial.update(d["nontrivial"])
        self.labels.update(d["labels"])
        self.excluded.update(d["excluded"])
        self.known_hits.update(d["known_hits"])
        for k, v in d["samples"].items():
            lst = self.samples.setdefault(k, [])
            for s in v:
                if len(lst) < self.MAX_SAMPLES_PER_LABEL:
                    lst.append(s)
        self.failures.extend(d["failures"])
        self.parts.update(d["parts"])
        for p in d["exhaustive_parts"]:
            if p not in self.exhaustive_parts:
                self.exhaustive_parts.append(p)
        for n in d["notes"]:
            if n not in self.notes:
                self.notes.append(n)


class _Violation(Exception):
    pass


def _raised_inside_implementation(exc):
    """Was the exception raised by code of the tree under test (innermost frame under .../mpilot/)?"""
    tb = traceback.extract_tb(exc.__traceback__)
    if not tb:
        return None
    last = tb[-1]
    marker = os.sep + "mpilot" + os.sep
    if marker in last.filename and (os.sep + "vcheck" + os.sep) not in last.filename:
        return "%s:%s" % (os.path.basename(last.filename), last.name)
    return None


def run_check(check, case, rec):
    """Run a property's check function.

    An exception escaping it is a harness error -- unless it was raised *inside the code under test* at a point where
    the check did not expect the implementation to raise at all (building a command object, reading an attribute):
    on the unchanged tree that never happens, so it is reported as a failure of the case rather than of the harness."""
    rec.evaluated()
    if "first_cases" not in rec.samples:
        rec.samples["first_cases"] = []
    if len(rec.samples["first_cases"]) < 2:
        rec.samples["first_cases"].append(case)
    before = _process_state()
    try:
        fails = check(case, rec)
    except HarnessError:
        raise
    except Exception as exc:
        leaked = _restore_process_state(before)
        if leaked and isinstance(exc, Warning):
            # the code under test turned warnings into errors for the whole process; the first victim was the harness itself
            return [Failure("process_state_changed:%s" % "+".join(leaked), "then %r was raised\n%s" % (exc, traceback.format_exc()[-800:]))]
        where = _raised_inside_implementation(exc)
        if where is not None:
            return [Failure("implementation_raised:%s@%s" % (type(exc).__name__, where), "%r\n%s" % (exc, traceback.format_exc()[-1200:]))]
        raise HarnessError("check function raised on case %s\n%s" % (dumps(case)[:1500], traceback.format_exc()))
    leaked = _restore_process_state(before)
    fails = list(fails or [])
    if leaked:
        # running a model must not reconfigure the interpreter for whatever runs next in the same process
        fails.append(Failure("process_state_changed:%s" % "+".join(leaked), "state differing after the case: %s" % ", ".join(leaked)))
    return fails


def _process_state():
    import os
    import warnings

    import numpy

    return {"warnings_filters": list(warnings.filters), "numpy_errstate": dict(numpy.geterr()), "cwd": os.getcwd()}


def _restore_process_state(before):
    """-> names of the pieces of process-wide state that differ from `before` (and puts them back)."""
    import os
    import warnings

    import numpy

    leaked = []
    if list(warnings.filters) != before["warnings_filters"]:
        leaked.append("warnings_filters")
        warnings.filters[:] = before["warnings_filters"]
        if hasattr(warnings, "_filters_mutated"):
            warnings._filters_mutated()
    if dict(numpy.geterr()) != before["numpy_errstate"]:
        leaked.append("numpy_errstate")
        numpy.seterr(**before["numpy_errstate"])
    try:
        if os.getcwd() != before["cwd"]:
            leaked.append("cwd")
            os.chdir(before["cwd"])
    except OSError:
        os.chdir(before["cwd"])
    return leaked


def drive(ctx, rec, part, strategy, check, n_examples, max_novel=4, shrink=True, tag=None):
    """Generate cases with Hypothesis and run `check` on each.

    Known-finding signatures are counted and otherwise ignored, so the search continues
    behind them.  A novel failure is shrunk by Hypothesis; the minimal case is recorded and
    its signature is added to the set ignored for the rest of this run, so that several
    distinct root causes can be reported by one run (collect-then-continue).
    """
    from hypothesis import HealthCheck, Phase, given, seed as hseed, settings

    try:  # bound the time spent minimising one failure (a budget, never a verdict)
        from hypothesis.internal.conjecture import engine as _engine

        _engine.MAX_SHRINKING_SECONDS = 20 if ctx.quick else 90
    except Exception:
        pass

    tag = tag or part + "/generated"
    session = set()
    remaining = int(n_examples)
    rnd = 0
    while remaining > 0 and len(session) < max_novel:
        state = {"n": 0, "last": None, "harness": None}

        def body(case):
            state["n"] += 1
            try:
                fails = run_check(check, case, rec)
            except HarnessError as exc:
                state["harness"] = exc
                raise
            novel = [f for f in fails if f.signature not in session and not rec.is_known(f)]
            if novel:
                state["last"] = (case, novel[0])
                raise _Violation(novel[0].signature)

        test = hseed(ctx.hseed(tag, rnd))(
            settings(
                max_examples=remaining,
                database=None,
                deadline=None,
                derandomize=False,
                report_multiple_bugs=False,
                suppress_health_check=list(HealthCheck),
                phases=(Phase.generate, Phase.shrink) if shrink else (Phase.generate,),
                print_blob=False,
            )(given(strategy)(body))
        )
        try:
            test()
            rec.parts[tag] += state["n"]
            remaining = 0
        except _Violation:
            case, failure = state["last"]
            session.add(failure.signature)
            rec.add_failure(failure, case, part)
            rec.parts[tag] += state["n"]
            remaining -= max(1, min(state["n"], remaining // 2))
            rnd += 1
        except HarnessError:
            raise
        except Exception:
            if state["harness"] is not None:
                raise state["harness"]
            if state["last"] is not None:
                # Hypothesis itself failed while shrinking: keep the last failing case un-minimised
                case, failure = state["last"]
                session.add(failure.signature)
                rec.add_failure(failure, case, part)
                rec.notes.append("shrinking aborted by a Hypothesis internal error in part %s" % tag)
                rec.parts[tag] += state["n"]
                remaining -= max(1, min(state["n"], remaining // 2))
                rnd += 1
                continue
            raise HarnessError("hypothesis driver failed in part %s\n%s" % (part, traceback.format_exc()))


def drive_enum(ctx, rec, part, cases, check, exhaustive=True, max_novel=6, tag=None):
    """Run `check` over an explicit enumeration, sharded by index."""
    tag = tag or part + "/enumerated"
    session = set()
    n = 0
    for i, case in enumerate(cases):
        if not ctx.mine(i):
            continue
        n += 1
        fails = run_check(check, case, rec)
        for f in fails:
            if f.signature in session or rec.is_known(f):
                continue
            if len(session) < max_novel:
                session.add(f.signature)
                rec.add_failure(f, case, part)
    rec.parts[tag] += n
    if exhaustive and tag not in rec.exhaustive_parts:
        rec.exhaustive_parts.append(tag)
