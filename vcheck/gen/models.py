"""Typed EEMS models: random DAGs over the built-in data commands, their command-file text, their CSV input
table, and their reference evaluation.

model = {
  "rows": n,
  "cols": {"c0": {"data": [...], "mask": None|[...], "dtype": "float64"|"int64", "missing": number|None}, ...},
  "nodes": [{"name": "N0", "cmd": "EEMSRead", "col": "c0"},
            {"name": "N3", "cmd": "Sum", "inputs": ["N0", "N1"], "params": {...}, "meta": {...}|None}, ...],   # topological
  "order": [indices into nodes: textual order],
}
"""
from __future__ import annotations

import os
from fractions import Fraction as F

from hypothesis import strategies as st

from ..ref import commands as R
from ..ref.val import Val, Unstable, Undefined
from . import arrays as G

NONFUZZY_PRODUCERS = [c for c in R.ALL if c not in R.FUZZY]
FUZZY_PRODUCERS = list(R.FUZZY)


def is_fuzzy_node(node):
    return node["cmd"] in R.FUZZY


@st.composite
def tables(draw, max_cols=3):
    rows = draw(st.integers(2, 8))
    ncols = draw(st.integers(1, max_cols))
    cols = {}
    for i in range(ncols):
        dtype = draw(st.sampled_from(["float64", "float64", "int64"]))
        spec = draw(G.array_spec(rows, dtype, mask_kind=draw(st.sampled_from(["none", "some", "single"])), payload=False))
        if draw(st.integers(0, 7)) == 0:
            # a column of large codes next to each other (parcel ids): distinct values that a tolerant comparison conflates
            codes = [250001, 250002, 250003, 250007]
            spec["data"] = [draw(st.sampled_from(codes)) if dtype == "int64" else float(draw(st.sampled_from(codes))) for _ in range(rows)]
        missing = None
        if spec["mask"] is not None and any(spec["mask"]):
            missing = draw(st.sampled_from([-9999, 99, -77]))
        else:
            spec["mask"] = None
        # make sure at least two distinct valid values exist
        valid = [x for x, m in zip(spec["data"], spec["mask"] or [0] * rows) if not m]
        if len(set(valid)) < 2:
            spec["data"][0], spec["data"][1] = (1, 3) if dtype == "int64" else (0.5, 2.0)
            if spec["mask"] is not None:
                spec["mask"][0] = spec["mask"][1] = 0
                if not any(spec["mask"]):
                    spec["mask"], missing = None, None
        cols["c%d" % i] = dict(spec, missing=missing)
    return {"rows": rows, "cols": cols}


def sanitize_params(cmd, params):
    """Remove deliberately faulty parameter tables (duplicate raw values, unequal lengths, equal thresholds)."""
    p = dict(params)
    for vals in ("NormalValues", "FuzzyValues"):
        for keys in ("RawValues", "ZScoreValues"):
            if keys in p and vals in p:
                raws, out_r, out_v = p[keys], [], []
                for i, r in enumerate(raws):
                    if not any(r == x for x in out_r) and i < len(p[vals]):
                        out_r.append(r)
                        out_v.append(p[vals][i])
                if not out_r and keys == "ZScoreValues" or (not out_r and cmd.endswith("Curve")):
                    out_r, out_v = [0], [0]
                p[keys], p[vals] = out_r, out_v
    if "TrueThreshold" in p and "FalseThreshold" in p and p["TrueThreshold"] == p["FalseThreshold"]:
        p["FalseThreshold"] = p["TrueThreshold"] - 1.5
    return p


@st.composite
def typed_models(draw, max_nodes=10, cmds=None, with_meta=True, clean=False):
    cmds = list(cmds or R.ALL)
    table = draw(tables())
    nodes = []
    for i, col in enumerate(sorted(table["cols"])):
        nodes.append({"name": "In%d" % i, "cmd": "EEMSRead", "col": col})
        if draw(st.booleans()):
            nodes[-1]["arg_perm"] = draw(st.lists(st.integers(0, 9), min_size=1, max_size=5))
    # further reads of the same columns with another (or no) missing value: the file holds the column's own marker at
    # the missing rows, which such a read sees as ordinary data unless its own MissingVal happens to equal it
    for j in range(draw(st.integers(0, 2))):
        col = draw(st.sampled_from(sorted(table["cols"])))
        spec = table["cols"][col]
        choices = [None, 7, -77, 0] + ([spec["missing"]] if spec.get("missing") is not None else []) + [
            x for x, m in zip(spec["data"], spec["mask"] or [0] * table["rows"]) if not m][:2]
        nodes.append({"name": "Again%d" % j, "cmd": "EEMSRead", "col": col, "read_missing": draw(st.sampled_from(choices)), "own_missing": True})
    n_extra = min(max_nodes, draw(st.sampled_from([1, 2, 3, 4, 5, 6, 7, 8, 10, 12])))
    pool_vals = [x for c in table["cols"].values() for x, m in zip(c["data"], c["mask"] or [0] * table["rows"]) if not m][:6]
    for k in range(n_extra):
        fuzzy_avail = [n["name"] for n in nodes if is_fuzzy_node(n)]
        plain_avail = [n["name"] for n in nodes if not is_fuzzy_node(n)]
        usable = [c for c in cmds if (c in R.FUZZY_INPUT and fuzzy_avail) or (c not in R.FUZZY_INPUT and plain_avail)]
        # prefer fuzzy converters early so that fuzzy operators become available
        if not fuzzy_avail and draw(st.booleans()):
            usable = [c for c in usable if c in R.FUZZY] or usable
        cmd = draw(st.sampled_from(usable))
        avail = fuzzy_avail if cmd in R.FUZZY_INPUT else plain_avail
        if cmd == "Copy":
            avail = fuzzy_avail + plain_avail
        n_in = draw(G.arity(cmd))
        # bias towards recent nodes (depth) but allow any (fan-out)
        inputs = [draw(st.sampled_from(avail[-3:] if draw(st.booleans()) else avail)) for _ in range(n_in)]
        params = draw(G.params_for(cmd, n_in, [0.5, -0.5, 1.0] if cmd in R.FUZZY_INPUT else pool_vals))
        # faults in parameters are not wanted in well-typed models
        if cmd == "FuzzySelectedUnion":
            params["NumberToConsider"] = min(params["NumberToConsider"], n_in)
            if params["TruestOrFalsest"] not in ("Truest", "Falsest"):
                params["TruestOrFalsest"] = "Truest"
        if params.get("Direction") not in (None, "LowToHigh", "HighToLow"):
            params["Direction"] = "HighToLow"
        if clean:
            params = sanitize_params(cmd, params)
        node = {"name": "N%d" % k, "cmd": cmd, "inputs": inputs, "params": params}
        if draw(st.booleans()):
            node["arg_perm"] = draw(st.lists(st.integers(0, 9), min_size=1, max_size=7))
        if with_meta and draw(st.integers(0, 3)) == 0:
            node["meta"] = {"DisplayName": "node %d" % k, "Color": draw(st.sampled_from(["Blue", "dark red", "x"]))}
            node["meta_pos"] = draw(st.integers(0, 12))
        nodes.append(node)
    order = list(draw(st.permutations(list(range(len(nodes))))))
    return dict(table, nodes=nodes, order=order)


# ----------------------------------------------------------------------------- text

def fmt_number(x):
    if isinstance(x, bool):
        return "true" if x else "false"
    if isinstance(x, int):
        return repr(x)
    r = repr(float(x))
    if "e" in r or "inf" in r or "nan" in r:
        r = "%.20f" % x
    return r


def fmt_value(v):
    if isinstance(v, bool):
        return "true" if v else "false"
    if isinstance(v, (int, float)):
        return fmt_number(v)
    if isinstance(v, (list, tuple)):
        return "[" + ", ".join(fmt_value(x) for x in v) + "]"
    return '"%s"' % v


def write_table(model, path, missing_override=None):
    cols = sorted(model["cols"])
    with open(path, "w") as f:
        f.write(",".join(cols) + "\n")
        for r in range(model["rows"]):
            cells = []
            for c in cols:
                spec = model["cols"][c]
                if spec["mask"] is not None and spec["mask"][r]:
                    cells.append(fmt_number(spec["missing"]))
                else:
                    cells.append(fmt_number(spec["data"][r]))
            f.write(",".join(cells) + "\n")


def node_arguments(model, node, csv_name="input.csv"):
    """[(name, text)] in a fixed order."""
    if node["cmd"] == "EEMSRead":
        spec = model["cols"][node["col"]]
        args = [("InFileName", '"%s"' % csv_name), ("InFieldName", '"%s"' % node["col"])]
        missing = node["read_missing"] if node.get("own_missing") else spec.get("missing")
        if missing is not None:
            args.append(("MissingVal", fmt_number(missing)))
        args.append(("DataType", '"Integer"' if spec["dtype"] == "int64" else '"Float"'))
        return permute_args(args, node.get("arg_perm"))
    cmd = node["cmd"]
    names = {}
    from .. import arr as A

    pn = A.INPUT_PARAM[cmd]
    args = []
    if cmd in R.NARY:
        args.append((pn[0], "[" + ", ".join(node["inputs"]) + "]"))
    else:
        for p, r in zip(pn, node["inputs"]):
            args.append((p, r))
    for k, v in node["params"].items():
        args.append((k, fmt_value(v)))
    if node.get("meta"):
        # Metadata may stand anywhere among the arguments
        args.insert(node.get("meta_pos", len(args)) % (len(args) + 1),
                    ("Metadata", "[" + ", ".join('"%s": "%s"' % kv for kv in node["meta"].items()) + "]"))
    return permute_args(args, node.get("arg_perm"))


def permute_args(args, perm):
    """Arguments may be written in any order; `perm` is a list of sort keys drawn by the generator."""
    if not perm:
        return args
    keyed = sorted(range(len(args)), key=lambda i: (perm[i % len(perm)], i))
    return [args[i] for i in keyed]


def source(model, order=None, extra_lines=(), csv_name="input.csv", with_meta=True):
    order = model["order"] if order is None else order
    lines = []
    for i in order:
        node = model["nodes"][i]
        args = node_arguments(model, node, csv_name)
        if not with_meta:
            args = [a for a in args if a[0] != "Metadata"]
        lines.append("%s = %s(\n    %s\n)" % (node["name"], node["cmd"], ",\n    ".join("%s = %s" % a for a in args)))
    lines.extend(extra_lines)
    return "\n".join(lines) + "\n"


# ----------------------------------------------------------------------------- reference evaluation

class NodeUndefined(object):
    def __init__(self, why):
        self.why = why


def column_cells(spec, node=None):
    """Cells an EEMSRead of this column returns: the file holds the column's marker at its missing rows; the read
    masks exactly the cells equal to *its* MissingVal."""
    own = node is not None and node.get("own_missing")
    missing = node["read_missing"] if own else spec.get("missing")
    out = []
    for x, m in zip(spec["data"], spec["mask"] or [0] * len(spec["data"])):
        value = spec["missing"] if m else x
        if spec["dtype"] == "int64":
            value = int(value)
        if missing is not None and value == (int(missing) if spec["dtype"] == "int64" else missing):
            out.append(None)
        else:
            out.append(Val(F(value)))
    return out


def reference_results(model):
    """name -> list of cells | NodeUndefined | ("expect", error class name)."""
    res = {}
    for node in model["nodes"]:
        if node["cmd"] == "EEMSRead":
            res[node["name"]] = column_cells(model["cols"][node["col"]], node)
            continue
        ins = [res[n] for n in node["inputs"]]
        if any(not isinstance(x, list) for x in ins):
            res[node["name"]] = NodeUndefined("depends on an undefined / failing node")
            continue
        try:
            res[node["name"]] = R.evaluate(node["cmd"], ins, node["params"], None)
        except R.Expect as e:
            res[node["name"]] = ("expect", e.name)
        except Undefined as e:
            res[node["name"]] = NodeUndefined("undefined: %s" % e)
        except Unstable as e:
            res[node["name"]] = NodeUndefined("unstable: %s" % e)
    return res
