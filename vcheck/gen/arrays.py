"""Hypothesis strategies for array cases of the EEMS data commands.

A unit case is {"cmd", "params", "arrays": [spec, ...], "shape": [...]}; spec = {"data","mask","dtype"} with flat
lists (see vcheck.arr.make_array).  Values are dyadic lattice points (k/8) so that reference arithmetic stays exact
or within a few ulps; small value pools force ties, duplicates and thresholds that coincide with data.
"""
from __future__ import annotations

import math

from hypothesis import strategies as st

from ..ref import commands as R

SHAPES_1D = st.integers(1, 12).map(lambda n: [n])


@st.composite
def shapes(draw, max_cells=48, min_rank=1, max_rank=3, min_cells=1):
    rank = draw(st.integers(min_rank, max_rank))
    dims = []
    cells = 1
    for _ in range(rank):
        d = draw(st.integers(1, 6))
        if cells * d > max_cells:
            d = 1
        dims.append(d)
        cells *= d
    if cells < min_cells:
        dims[draw(st.integers(0, rank - 1))] = min_cells
    return dims


def lattice_floats(lo=-8.0, hi=8.0):
    return st.integers(int(lo * 8), int(hi * 8)).map(lambda k: k / 8.0)


def lattice_ints(lo=-8, hi=8):
    return st.integers(lo, hi)


def lattice_numbers():
    """Parameter numbers: ints and floats mixed."""
    return st.one_of(lattice_ints(-6, 6), lattice_floats(-6, 6))


FLOAT_PAYLOADS = [0.0, 1e300, -1e300, float("nan"), float("inf"), float("-inf"), 0.5, -1.0, 1.0, 3.0, -9999.0]
INT_PAYLOADS = [0, 2 ** 40, -(2 ** 40), 1, -1, 3, -9999, 7]


@st.composite
def mask_for(draw, size, kind=None):
    kind = kind or draw(st.sampled_from(["none", "none", "some", "some", "some", "single", "all", "allfalse"]))
    if kind == "none":
        return None
    if kind == "allfalse":
        return [0] * size
    if kind == "all":
        return [1] * size
    if kind == "single":
        i = draw(st.integers(0, size - 1))
        return [1 if j == i else 0 for j in range(size)]
    m = draw(st.lists(st.sampled_from([0, 0, 1]), min_size=size, max_size=size))
    return m


TINY = [2.0 ** -30, -(2.0 ** -30), 3 * 2.0 ** -40, -(2.0 ** -27), 2.0 ** -60, 2.0 ** -100]


@st.composite
def array_spec(draw, size, dtype, fuzzy=False, pool=None, mask_kind=None, payload=True, wide=False, tiny=False, fuzzy_wild=False, pool_only=False, big_ints=False):
    if fuzzy and fuzzy_wild:
        # a result declared fuzzy by whatever produced it (a reader, a plug-in command) need not respect the range
        base = st.one_of(lattice_floats(-1, 1), lattice_floats(-4, 4), st.sampled_from([1e6, -250.0, 1e20, 999999.0]))
    elif fuzzy:
        base = lattice_floats(-1, 1)
    elif dtype.startswith("uint"):
        # unsigned data (what the NetCDF reader delivers for "Positive Integer"): differences below zero must not wrap around
        base = st.one_of(st.integers(0, 16), st.integers(0, 250))
    elif dtype == "int16":
        base = st.one_of(lattice_ints(), lattice_ints(), st.sampled_from([20000, -20000, 32767, -32768, 300]))
    elif dtype == "int64" and big_ints:
        # integers whose pairwise products leave the range in which doubles are exact (2^53) while products with the
        # small values of up to three further inputs stay inside the 64-bit integers
        base = st.one_of(lattice_ints(), lattice_ints(), lattice_ints(), st.sampled_from([100000001, -94906267, 94906266]))
    elif dtype.startswith("int"):
        base = lattice_ints()
    elif wide:
        base = st.one_of(lattice_floats(), st.floats(min_value=-1e150, max_value=1e150, allow_nan=False, allow_subnormal=True))
    elif tiny:
        # non-zero values far below any "close to zero" tolerance (numpy's isclose / masked_values use 1e-8): they are
        # ordinary numbers to every arithmetic definition, in particular ordinary divisors
        # (single precision: only magnitudes whose squares and products stay normal numbers of that type -- a spread of
        # 2**-100 underflows to zero there, which is a limit of the element type, not of the command)
        base = st.one_of(lattice_floats(), lattice_floats(), st.sampled_from(TINY[:4] if dtype == "float32" else TINY))
    else:
        base = lattice_floats()
    elems = base if not pool else (st.sampled_from(pool) if pool_only else st.one_of(st.sampled_from(pool), base))
    data = draw(st.lists(elems, min_size=size, max_size=size))
    if dtype.startswith("int") or dtype.startswith("uint"):
        data = [int(x) for x in data]
        if dtype.startswith("uint"):
            data = [abs(x) for x in data]  # (values taken from a shared pool may be negative)
    elif dtype == "float32":
        import numpy as _np

        # keep the spec exactly representable in single precision, and finite (|x| <= 1e15 leaves room for squares and products in single precision)
        data = [float(_np.float32(max(-1e15, min(1e15, x)))) for x in data]
    else:
        data = [float(x) for x in data]
    mask = draw(mask_for(size, mask_kind))
    if mask is not None and payload:
        payloads = [abs(x) for x in INT_PAYLOADS if abs(x) < 2 ** 15] if dtype.startswith("uint") or dtype == "int16" else INT_PAYLOADS if dtype.startswith("int") else FLOAT_PAYLOADS
        if dtype == "int32":
            payloads = [x for x in payloads if abs(x) < 2 ** 31]
        if dtype == "float32":
            payloads = [x for x in payloads if not (abs(x) > 3e38 and abs(x) != float("inf"))]
        for i, m in enumerate(mask):
            if m:
                data[i] = draw(st.sampled_from(payloads + ([data[0]] if data else [])))
    spec = {"data": data, "mask": mask, "dtype": dtype}
    layout = draw(st.sampled_from(["c", "c", "c", "f", "strided", "reversed"]))
    if layout != "c":
        spec["layout"] = layout
    return spec


def _distinct(xs):
    out = []
    for x in xs:
        if not any(x == y for y in out):
            out.append(x)
    return out


@st.composite
def _table_fault(draw, raws, vals):
    """Occasionally (1 in 12) break a category / curve table: duplicate raw value or unequal lengths."""
    f = draw(st.integers(0, 23))
    raws, vals = list(raws), list(vals)
    if f == 0 and len(raws) >= 1:
        raws.append(raws[0])
        vals.append(vals[0])
    elif f == 1 and len(vals) >= 1:
        vals = vals[:-1]
    return raws, vals


@st.composite
def params_for(draw, cmd, n, pool, wild=False):
    """Scalar parameters of `cmd` from its documented domain.  `pool`: a few data values, so thresholds,
    categories and control points coincide with cells.  wild=True draws out-of-fuzzy-range values (C04)."""
    num = lattice_numbers() if not wild else st.one_of(
        lattice_numbers(), st.floats(-1e6, 1e6, allow_nan=False, width=32).map(float), st.integers(-1000, 1000),
        # magnitudes that double as "no data" sentinels: numpy's default fill values, the usual -9999
        st.sampled_from([1e20, -1e20, 999999, -9999, 1e300]))
    near = st.one_of(st.sampled_from(pool), num) if pool else num
    p = {}
    if cmd in ("WeightedSum", "WeightedMean", "FuzzyWeightedUnion"):
        w = draw(st.lists(st.one_of(st.integers(-2, 5), st.integers(-8, 16).map(lambda k: k / 4.0)), min_size=n, max_size=n))
        if n >= 2 and draw(st.integers(0, 3)) == 0:
            w = list(w)
            w[draw(st.integers(1, n - 1))] = 0  # an input that does not count towards the value: its missing cells still do
        zero_sum = draw(st.integers(0, 7)) == 0
        if zero_sum:
            # weights that cancel exactly: a weighted mean then divides by zero in every cell (all cells missing)
            w = list(w)
            w[-1] = w[-1] - sum(w)
        elif cmd != "WeightedSum" and sum(w) == 0:
            w = list(w)
            w[-1] = w[-1] + 1
        elif draw(st.integers(0, 7)) == 0 and sum(w) != 0:
            # shares written with a few decimals: they add up to nearly (not exactly) one
            total, digits = sum(w), draw(st.integers(3, 8))
            shares = [round(x / total, digits) for x in w]
            if sum(shares) != 0:
                w = shares
        p["Weights"] = w
    elif cmd == "Normalize":
        if draw(st.booleans()):
            p["StartVal"] = draw(num)
        if draw(st.booleans()):
            p["EndVal"] = draw(num)
    elif cmd == "NormalizeZScore":
        zs = draw(st.lists(st.sampled_from([-2, -1, -0.5, 0, 0.5, 1, 1.5, 2, 3]), min_size=2, max_size=2, unique=True))
        p["TrueThresholdZScore"], p["FalseThresholdZScore"] = zs
        if draw(st.booleans()):
            a, b = sorted(draw(st.lists(lattice_numbers(), min_size=2, max_size=2, unique=True)))
            if a != b:
                p["StartVal"], p["EndVal"] = a, b
    elif cmd == "CvtToFuzzyZScore":
        zs = draw(st.lists(st.sampled_from([-2, -1, -0.5, 0, 0.5, 1, 1.5, 2, 3]), min_size=2, max_size=2, unique=True))
        which = draw(st.sampled_from(["both", "both", "none", "true", "false"]))
        if which in ("both", "true") and zs[0] != -1:
            p["TrueThresholdZScore"] = zs[0]
        if which in ("both", "false") and zs[1] != p.get("TrueThresholdZScore", 1):
            p["FalseThresholdZScore"] = zs[1]
    elif cmd in ("NormalizeCat", "CvtToFuzzyCat"):
        k = draw(st.integers(0, 5))
        raws = _distinct(draw(st.lists(near, min_size=k, max_size=k)))
        vals = draw(st.lists(num, min_size=len(raws), max_size=len(raws)))
        raws, vals = draw(_table_fault(raws, vals))
        p["RawValues"] = raws
        p["FuzzyValues" if cmd == "CvtToFuzzyCat" else "NormalValues"] = vals
        p["DefaultFuzzyValue" if cmd == "CvtToFuzzyCat" else "DefaultNormalValue"] = draw(num)
    elif cmd in ("NormalizeCurve", "CvtToFuzzyCurve"):
        k = draw(st.integers(1, 6))
        raws = _distinct(draw(st.lists(near, min_size=k, max_size=k)))
        vals = draw(st.lists(num, min_size=len(raws), max_size=len(raws)))
        raws, vals = draw(_table_fault(raws, vals))
        p["RawValues"] = raws
        p["FuzzyValues" if cmd == "CvtToFuzzyCurve" else "NormalValues"] = vals
    elif cmd in ("NormalizeMeanToMid", "CvtToFuzzyMeanToMid"):
        p["IgnoreZeros"] = draw(st.booleans())
        p["FuzzyValues" if cmd == "CvtToFuzzyMeanToMid" else "NormalValues"] = draw(st.lists(num, min_size=5, max_size=5))
    elif cmd in ("NormalizeCurveZScore", "CvtToFuzzyCurveZScore"):
        zs = draw(st.lists(st.sampled_from([-2, -1.5, -1, -0.5, 0, 0.5, 1, 1.5, 2]), min_size=1, max_size=5, unique=True))
        p["ZScoreValues"] = zs
        p["FuzzyValues" if cmd == "CvtToFuzzyCurveZScore" else "NormalValues"] = draw(
            st.lists(num, min_size=len(zs), max_size=len(zs)))
    elif cmd == "CvtToFuzzy":
        which = draw(st.sampled_from(["both", "both", "none", "true", "false"]))
        if which in ("both", "true"):
            p["TrueThreshold"] = draw(near)
        if which in ("both", "false"):
            p["FalseThreshold"] = draw(near)
        if which == "both" and p["TrueThreshold"] == p["FalseThreshold"] and draw(st.integers(0, 9)) > 0:
            p["FalseThreshold"] = p["TrueThreshold"] + draw(st.sampled_from([-2, -0.5, 0.25, 1, 3]))
        d = draw(st.sampled_from([None, "LowToHigh", "HighToLow", "LowToHigh", "HighToLow", "Sideways"]))
        if d == "Sideways" and draw(st.integers(0, 4)) > 0:
            d = "LowToHigh"
        if d:
            p["Direction"] = d
    elif cmd == "CvtToBinary":
        p["Threshold"] = draw(near)
        p["Direction"] = draw(st.sampled_from(["LowToHigh", "HighToLow"] * 8 + ["lowtohigh"]))
    elif cmd == "CvtFromFuzzy":
        p["TrueThreshold"] = draw(num)
        p["FalseThreshold"] = draw(num)
        if p["TrueThreshold"] == p["FalseThreshold"] and draw(st.integers(0, 9)) > 0:
            p["FalseThreshold"] = p["TrueThreshold"] - 1.5
    elif cmd == "FuzzySelectedUnion":
        p["TruestOrFalsest"] = draw(st.sampled_from(["Truest", "Falsest"] * 10 + ["Middle"]))
        p["NumberToConsider"] = draw(st.integers(1, max(1, n)))
        if draw(st.integers(0, 19)) == 0:
            p["NumberToConsider"] = n + draw(st.integers(1, 2))
    return p


def arity(cmd):
    if cmd in R.UNARY:
        return st.just(1)
    if cmd in R.BINARY:
        return st.just(2)
    if cmd == "FuzzyXOr":
        return st.integers(2, 5)
    return st.integers(1, 5)


@st.composite
def unit_case(draw, cmds, max_rank=1, dtypes=("float64", "int64"), wild=False, mask_kind=None, min_cells=1,
              max_cells=24, wide=False, same_dtype=False, two_distinct=False, tiny=False, close=False, fuzzy_wild=False):
    cmd = draw(st.sampled_from(list(cmds)))
    n = draw(arity(cmd))
    if max_rank == 1:
        shape = [draw(st.integers(min_cells, min(12, max_cells)))]
    else:
        shape = draw(shapes(max_cells=max_cells, max_rank=max_rank, min_cells=min_cells))
    size = 1
    for d in shape:
        size *= d
    fuzzy = cmd in R.FUZZY_INPUT
    pool_src = lattice_floats(-1, 1) if fuzzy else lattice_floats()
    pool = draw(st.lists(pool_src, min_size=1, max_size=4))
    close_used = False
    if close and not fuzzy and draw(st.integers(0, 5)) == 0:
        close_used = True  # such values go with double precision only: single precision cannot tell them apart reliably
        # distinct values that a tolerant comparison (numpy.isclose: rtol 1e-5, atol 1e-8) would take for equal
        pools = [[250001.0, 250002.0, 250003.0], [1.0, 1.000001, 0.999999], [1048576.0, 1048577.0, 1048575.0, 2.0]]
        if cmd in ("CvtToBinary", "NormalizeCat", "CvtToFuzzyCat", "Copy"):
            # commands that only compare or look up their cells are exact on 64-bit integers beyond 2^53 as well
            pools.append([9007199254740993, 9007199254740995, 9007199254740997])
        pool = draw(st.sampled_from(pools))
    arrays = []
    first_dtype = None
    for i in range(n):
        dtype = draw(st.sampled_from([d for d in dtypes if d.startswith("float")] or ["float64"])) if fuzzy else draw(st.sampled_from(list(dtypes)))
        if close_used:
            dtype = {"float32": "float64", "int32": "int64", "int16": "int64"}.get(dtype, dtype)
        if same_dtype and first_dtype:
            dtype = first_dtype
        first_dtype = first_dtype or dtype
        use_pool = [int(x) for x in pool] if dtype.startswith("int") else [abs(int(x)) for x in pool] if dtype.startswith("uint") else [float(x) for x in pool]
        spec = draw(array_spec(size, dtype, fuzzy=fuzzy, pool=use_pool, mask_kind=mask_kind, wide=wide and not fuzzy, tiny=tiny, fuzzy_wild=fuzzy_wild,
                               pool_only=close_used and draw(st.booleans()), big_ints=tiny and i < 2))
        if two_distinct and size >= 2:
            m = spec["mask"] or [0] * size
            if len(set(x for x, mm in zip(spec["data"], m) if not mm)) < 2:
                i, j = draw(st.lists(st.integers(0, size - 1), min_size=2, max_size=2, unique=True))
                a = draw(pool_src)
                b = a + draw(st.sampled_from([-1, 1, 1, 2])) * (1 if not fuzzy else 0.25)
                if fuzzy:
                    b = max(-1.0, min(1.0, b))
                    if b == a:
                        b = a - 0.25
                vals = [int(a), int(a) + (1 if int(b) <= int(a) else int(b) - int(a))] if dtype.startswith("int") else [a, b]
                if dtype.startswith("uint"):
                    vals = [abs(int(a)), abs(int(a)) + 1 + abs(int(b))]
                spec["data"][i], spec["data"][j] = vals
                if spec["mask"] is not None:
                    spec["mask"] = list(m)
                    spec["mask"][i] = spec["mask"][j] = 0
        arrays.append(spec)
    data_pool = [x for a in arrays for x, m in zip(a["data"], a["mask"] or [0] * size) if not m and math.isfinite(x)][:6]
    params = draw(params_for(cmd, n, data_pool or pool, wild=wild))
    case = {"cmd": cmd, "params": params, "arrays": arrays, "shape": shape}
    if n >= 2 and draw(st.integers(0, 7)) == 0:
        # the same result listed twice: input j is the very object that input i is
        i, j = sorted(draw(st.lists(st.integers(0, n - 1), min_size=2, max_size=2, unique=True)))
        # (a column of large integers is not listed a third time: three of them multiplied leave the 64-bit range)
        if not (tiny and j >= 2 and arrays[i]["dtype"] == "int64" and any(abs(x) > 10 ** 6 for x in arrays[i]["data"])):
            arrays[j] = dict(arrays[i])
            case["aliases"] = [[i, j]]
    return case
