"""Abstract command files, their concrete renderings with a recorded line map, and Hypothesis strategies.

Abstract program (JSON):
  {"nl": "\n" | "\r\n", "head": gap, "commands": [command...], "tail": gap}
  command = {"result": str | None, "command": str, "args": [arg...], "g": [gap x4], "trail_comma": bool}
  arg     = {"name": str, "value": value, "g": [gap before name, before '=', before value, before ',' or ')']}
  value   = {"k": "int", "text": "+12"} | {"k": "float", "text": "1.5e3"} | {"k": "str", "v": text, "q": "double"|"single"|"none"}
          | {"k": "list", "items": [value...], "g": [gap before each item..., gap before ']'], "ig": [gap before each ','], "trail": bool}
          | {"k": "tuple", "pairs": [[key value, value value]...], "g": [...], "trail": bool}
  gap     = {"s": blanks, "lines": None | [trailing comment or "", then whole lines...], "indent": blanks}

The renderer never consults mpilot.  It returns the text and a line map with the 1-based line on which every
command, argument, value and list element starts.
"""
from __future__ import annotations

import re

from hypothesis import strategies as st

ID_RE = re.compile(r"[a-zA-Z_][a-zA-Z_0-9]*\Z")
FORBIDDEN_UNQUOTED = set("#:,=()[]\"'\r\n")
PLAIN_START = "/\\%$@!&*;<>?^{}|~"


# ----------------------------------------------------------------------------- rendering

class Out(object):
    def __init__(self, nl, mix=None):
        self.nl = nl
        self.mix = mix
        self.parts = []
        self.toks = []
        self.line = 1

    def emit(self, text):
        self.parts.append(text)

    def tok(self, kind, text):
        self.toks.append((len(self.parts), kind))
        self.parts.append(text)

    def newline(self):
        nl = self.nl
        if self.mix:
            # line ends of different kinds in one file (a Unix header on a classic-Mac body, pasted CRLF parts)
            nl = self.mix[self.line % len(self.mix)]
            last = next((x for x in reversed(self.parts) if x), "")
            if nl == "\n" and last.endswith("\r"):
                nl = "\r\n"  # a lone LF right after a CR would read as one CRLF break
        self.parts.append(nl)
        self.line += 1

    def gap(self, g, allow_nl=True):
        if g is None:
            return
        self.emit(g.get("s", ""))
        lines = g.get("lines")
        if lines is not None and allow_nl:
            for i, text in enumerate(lines):
                self.emit(text)
                self.newline()
            self.emit(g.get("indent", ""))

    def text(self):
        return "".join(self.parts)


ESCAPES = {"\\": "\\\\", "\n": "\\n", "\t": "\\t", "\r": "\\r"}


def quote(text, q, raw_nl=None):
    """raw_nl: write line feeds of the text as physical line breaks (the given terminator) instead of the escape."""
    ch = '"' if q == "double" else "'"
    out = []
    for c in text:
        if c == "\n" and raw_nl:
            out.append(raw_nl)
        elif c == ch:
            out.append("\\" + c)
        elif c in ESCAPES:
            out.append(ESCAPES[c])
        else:
            out.append(c)
    return ch + "".join(out) + ch


def render_value(out, v, lm, path):
    lm[path] = out.line
    k = v["k"]
    if k in ("int", "float"):
        out.tok("number", v["text"])
    elif k == "str":
        if v.get("q", "double") == "none":
            out.tok("unquoted", v["v"])
        else:
            if v.get("raw_nl") and "\n" in v["v"]:
                # a quoted string running over several physical lines: its content has the file's own line terminators
                out.tok("quoted", quote(v["v"], v["q"], raw_nl=out.nl))
                out.line += v["v"].count("\n")
            else:
                out.tok("quoted", quote(v["v"], v["q"]))
    elif k == "list":
        out.tok("lbrack", "[")
        gaps = v.get("g") or []
        igaps = v.get("ig") or []
        for i, item in enumerate(v["items"]):
            out.gap(gaps[i] if i < len(gaps) else None)
            render_value(out, item, lm, path + (i,))
            last = i == len(v["items"]) - 1
            if not last or v.get("trail"):
                out.gap(igaps[i] if i < len(igaps) else None)
                out.tok("comma", ",")
        out.gap(gaps[len(v["items"])] if len(gaps) > len(v["items"]) else None)
        out.tok("rbrack", "]")
    elif k == "tuple":
        out.tok("lbrack", "[")
        gaps = v.get("g") or []
        for i, (key, val) in enumerate(v["pairs"]):
            out.gap(gaps[i] if i < len(gaps) else None)
            lm[path + ("key", i)] = out.line
            render_value(out, key, {}, ())
            cg = (v.get("cg") or [])
            out.gap(cg[2 * i] if 2 * i < len(cg) else None)
            out.tok("colon", v.get("colon", ":"))
            out.gap(cg[2 * i + 1] if 2 * i + 1 < len(cg) else None)
            render_value(out, val, {}, ())
            last = i == len(v["pairs"]) - 1
            if not last or v.get("trail"):
                out.tok("comma", ",")
        out.gap(gaps[len(v["pairs"])] if len(gaps) > len(v["pairs"]) else None)
        out.tok("rbrack", "]")
    else:
        raise ValueError(k)
    lm[path + ("end",)] = out.line


def render(prog):
    """-> (text, linemap).  linemap keys: ("cmd", i), ("arg", i, j), ("val", i, j, *indices)."""
    out = Out(prog.get("nl", "\n"), prog.get("nl_mix"))
    lm = {}
    out.gap(prog.get("head"))
    for i, c in enumerate(prog["commands"]):
        g = c.get("g") or [None] * 4
        lm[("cmd", i)] = out.line
        if c.get("result") is not None:
            out.tok("result", c["result"])
            out.gap(g[0], allow_nl=False)
            out.tok("hequal", "=")
            out.gap(g[1], allow_nl=False)
        out.tok("command", c["command"])
        out.gap(g[2])
        out.tok("lparen", "(")
        for j, a in enumerate(c["args"]):
            ag = a.get("g") or [None] * 4
            out.gap(ag[0])
            lm[("arg", i, j)] = out.line
            out.tok("argname", a["name"])
            out.gap(ag[1])
            out.tok("equal", "=")
            out.gap(ag[2])
            render_value(out, a["value"], lm, ("val", i, j))
            out.gap(ag[3])
            last = j == len(c["args"]) - 1
            if not last or (c.get("trail_comma") and c["args"]):
                out.tok("acomma", ",")
        out.gap(g[3])
        out.tok("rparen", ")")
        lm[("cmdend", i)] = out.line
        sep = c.get("after") or {"s": "", "lines": [""], "indent": ""}
        if i < len(prog["commands"]) - 1:
            if sep.get("lines") is None:
                sep = dict(sep, lines=[""])
            out.gap(sep)
    out.gap(prog.get("tail"))
    # text after the last line break: blanks and/or a comment that runs to the end of the file, no terminator
    out.emit(prog.get("eof") or "")
    if prog.get("_want_tokens"):
        return out.text(), lm, out
    return out.text(), lm


# ----------------------------------------------------------------------------- expected parse result

def expected_value(v, nl="\n"):
    """Plain Python structure the parser must deliver: ints, floats, strs, lists, dicts."""
    k = v["k"]
    if k == "str" and v.get("raw_nl") and v.get("q", "double") != "none":
        return v["v"].replace("\n", nl)
    if k == "int":
        return int(v["text"])
    if k == "float":
        return float(v["text"])
    if k == "str":
        return v["v"]
    if k == "list":
        return [expected_value(x, nl) for x in v["items"]]
    if k == "tuple":
        return {expected_value(key, nl): expected_value(val, nl) for key, val in v["pairs"]}
    raise ValueError(k)


def expected_program(prog):
    return [
        (c.get("result"), c["command"], [(a["name"], expected_value(a["value"], prog.get("nl", "\n"))) for a in c["args"]])
        for c in prog["commands"]
    ]


def plain(node_value):
    """Parse-tree value (ExpressionNodes inside lists / dicts) -> plain Python structure."""
    if isinstance(node_value, list):
        return [plain(x.value) for x in node_value]
    if isinstance(node_value, dict):
        return {k: plain(x.value) for k, x in node_value.items()}
    return node_value


def parsed_program(program_node):
    return [
        (c.result_name, c.command, [(a.name, plain(a.value.value)) for a in c.arguments])
        for c in program_node.commands
    ]


def same_value(a, b):
    """Equality that distinguishes int from float and compares floats exactly."""
    if isinstance(a, bool) or isinstance(b, bool):
        return type(a) is type(b) and a == b
    if isinstance(a, (int, float)) or isinstance(b, (int, float)):
        return type(a) is type(b) and (a == b or (a != a and b != b))
    if isinstance(a, list):
        return isinstance(b, list) and len(a) == len(b) and all(same_value(x, y) for x, y in zip(a, b))
    if isinstance(a, dict):
        return isinstance(b, dict) and set(a) == set(b) and all(same_value(a[k], b[k]) for k in a)
    return type(a) is type(b) and a == b


# ----------------------------------------------------------------------------- classification of unquoted text

def unquoted_class(text):
    """How the documented lexical grammar splits an unquoted string:
    'id' (one identifier), 'plain1' (one PLAIN_STRING token), 'id_plain' (identifier immediately followed by one
    PLAIN_STRING token), or 'multi_token' (anything else: several words, digit-led, embedded numbers)."""
    if ID_RE.match(text):
        return "id"
    if text[0] in PLAIN_START or (not text[0].isalnum() and text[0] not in "_+-. \t" and ord(text[0]) < 128) or ord(text[0]) >= 128:
        return "plain1"
    m = re.match(r"[a-zA-Z_][a-zA-Z_0-9]*", text)
    if m:
        rest = text[m.end():]
        if rest and (rest[0] in PLAIN_START or (ord(rest[0]) >= 128) or (
                not rest[0].isalnum() and rest[0] not in "_+-. \t")):
            return "id_plain"
    return "multi_token"


def value_classes(v, acc=None):
    """Set of value-class labels occurring in a value (used for signatures and labels)."""
    acc = set() if acc is None else acc
    k = v["k"]
    if k == "str":
        q = v.get("q", "double")
        if q == "none":
            acc.add("unquoted:" + unquoted_class(v["v"]))
            if ":" in v["v"]:
                acc.add("unquoted:colon")
        else:
            t = v["v"]
            cls = "quoted:plain"
            if any(ord(c) > 127 for c in t):
                cls = "quoted:non_ascii"
            elif any(c in t for c in "\\\n\t\r") or '"' in t or "'" in t:
                cls = "quoted:escape"
            elif t == "":
                cls = "quoted:empty"
            elif any(c in FORBIDDEN_UNQUOTED for c in t) or t != t.strip():
                cls = "quoted:delimiters"
            acc.add(cls)
    elif k == "list":
        acc.add("list:nested" if any(x["k"] == "list" for x in v["items"]) else ("list:empty" if not v["items"] else "list:flat"))
        for x in v["items"]:
            value_classes(x, acc)
    elif k == "tuple":
        acc.add("tuple")
        for key, val in v["pairs"]:
            value_classes(key, acc)
            value_classes(val, acc)
    else:
        acc.add(k + (":exponent" if k == "float" and ("e" in v["text"].lower()) else ""))
    return acc


# ----------------------------------------------------------------------------- strategies

BLANKS = st.sampled_from(["", "", " ", " ", "  ", "\t", " \t "])
COMMENT_TEXT = st.text(alphabet=st.sampled_from(list("abc XYZ09_=()[],:\"'#é-+.") + ["\x0c", "\x0b", "\x1c", "\x1d", "\x1e", "\x85", "\u2028", "\u2029"]),
                       max_size=12).map(lambda s: "#" + s)


@st.composite
def gaps(draw, newline_prob=3, comments=True):
    """A gap; newline_prob in tenths."""
    s = draw(BLANKS)
    if draw(st.integers(0, 9)) >= newline_prob:
        return {"s": s, "lines": None, "indent": ""}
    first = draw(COMMENT_TEXT) if comments and draw(st.integers(0, 3)) == 0 else ""
    more = draw(st.lists(st.one_of(st.just(""), BLANKS, COMMENT_TEXT if comments else st.just("")), max_size=2))
    return {"s": s, "lines": [first] + more, "indent": draw(BLANKS)}


def inline_gap():
    return BLANKS.map(lambda s: {"s": s, "lines": None, "indent": ""})


IDENT = st.from_regex(r"[a-zA-Z_][a-zA-Z_0-9]{0,7}", fullmatch=True).filter(lambda s: s not in ("True", "False"))


def int_values():
    return st.builds(
        lambda sign, n: {"k": "int", "text": sign + str(n)},
        st.sampled_from(["", "", "-", "+"]),
        st.one_of(st.integers(0, 9), st.integers(0, 10 ** 6), st.integers(0, 10 ** 30)),
    )


@st.composite
def float_values(draw, exponent=True):
    sign = draw(st.sampled_from(["", "", "-", "+"]))
    form = draw(st.sampled_from(["d.d", "d.d", "d.", ".d"]))
    a = str(draw(st.integers(0, 99999)))
    b = draw(st.text(alphabet="0123456789", min_size=1, max_size=6))
    body = {"d.d": a + "." + b, "d.": a + ".", ".d": "." + b}[form]
    exp = ""
    if exponent and draw(st.integers(0, 3)) == 0:
        exp = draw(st.sampled_from(["e", "E"])) + draw(st.sampled_from(["", "+", "-"])) + str(draw(st.integers(0, 40)))
    return {"k": "float", "text": sign + body + exp}


QUOTED_ALPHABET = st.one_of(
    st.sampled_from(list("abcXYZ019 _-+.#:,=()[]/%")),
    st.sampled_from(list("\"'\\\n\t")),
    st.sampled_from(["\x0c", "\x0b", "\x1c", "\x85", "\u2028", "\u2029", "\x7f", "\x01"]),
    st.sampled_from(list("\u00e9\u00f1\u00fc\u00df\u00a0\u00ff\u0100\u03a9\u0434\u05d0\u4e2d\u65e5\u20ac\u2014\u2026\u2603\u2811\ufeff\U0001f600\U0001f30d")),
)


@st.composite
def quoted_strings(draw, lone_backslash=False):
    text = draw(st.text(alphabet=QUOTED_ALPHABET, max_size=12))
    if draw(st.integers(0, 11)) == 0:
        # several lines, one of them holding nothing but blanks, or all of them indented alike
        text = draw(st.sampled_from(["first\n   \nthird", "x\n\t\ny", "  a\n  b\n  c", "\n \n", "p\n \n\n  q "]))
    v = {"k": "str", "v": text, "q": draw(st.sampled_from(["double", "single"]))}
    if "\n" in text and "\r" not in text and draw(st.booleans()):
        v["raw_nl"] = True
    return v


UNQ_REST = st.text(alphabet=st.sampled_from(list("abcXYZ_/\\%$@!&*;<>?^{}|~. é0159+-")), max_size=10)


@st.composite
def unquoted_strings(draw, allow_colon=False, classes=("id", "plain1", "id_plain", "multi_token")):
    cls = draw(st.sampled_from(list(classes)))
    if cls == "id":
        text = draw(IDENT)
    elif cls == "plain1":
        text = draw(st.sampled_from(list(PLAIN_START))) + draw(UNQ_REST)
    elif cls == "id_plain":
        # (the text after the identifier may also start with a letter of another alphabet: not part of the identifier)
        text = draw(IDENT) + draw(st.sampled_from(list(PLAIN_START) + list("\u00e9\u00f6\u03bb\u00df"))) + draw(UNQ_REST)
    else:
        words = draw(st.lists(st.one_of(IDENT, st.integers(0, 999).map(str), st.sampled_from(["1.50", "v1.50x", "a+1", "x-2"])),
                              min_size=2, max_size=4))
        text = draw(st.sampled_from([" ", "  ", "\t"])).join(words)
        if re.match(r"[\-\+]?(\d|\.\d)", text):
            text = "w " + text
    text = text.strip(" \t")
    if not text or text in ("True", "False"):
        text = "word"
    if allow_colon and cls != "multi_token" and draw(st.integers(0, 5)) == 0:
        text = text + ":" + draw(st.sampled_from(["/x", "\\p\\q", "y"]))
    return {"k": "str", "v": text, "q": "none"}


def scalar_values(unq_classes=("id", "plain1", "id_plain", "multi_token"), allow_colon=False):
    return st.one_of(int_values(), float_values(), quoted_strings(), unquoted_strings(allow_colon, unq_classes))


@st.composite
def list_values(draw, depth=0, unq_classes=("id", "plain1", "id_plain")):
    n = draw(st.integers(0, 4))
    inner = scalar_values(unq_classes) if depth >= 2 else st.one_of(
        scalar_values(unq_classes), scalar_values(unq_classes), list_values(depth + 1, unq_classes))
    items = draw(st.lists(inner, min_size=n, max_size=n))
    g = [draw(gaps(2)) for _ in range(n + 1)]
    ig = [draw(inline_gap()) for _ in range(n)]
    return {"k": "list", "items": items, "g": g, "ig": ig, "trail": bool(n) and draw(st.booleans())}


@st.composite
def tuple_values(draw):
    n = draw(st.integers(1, 4))
    keys = draw(st.lists(st.one_of(IDENT, st.sampled_from(["True", "False", "Visible"]),
                                   st.text(alphabet="abc XYZ_", min_size=1, max_size=6).map(str.strip).filter(bool)),
                         min_size=n, max_size=n, unique=True))
    pairs = []
    for key in keys:
        kq = draw(st.sampled_from(["double", "single", "none"])) if ID_RE.match(key) else draw(st.sampled_from(["double", "single"]))
        val = draw(st.one_of(quoted_strings(), unquoted_strings(False, ("id", "plain1", "id_plain")), int_values(), float_values(False),
                             st.sampled_from(["True", "False"]).map(lambda w: {"k": "str", "v": w, "q": "none"})))
        pairs.append([{"k": "str", "v": key, "q": kq}, val])
    g = [draw(gaps(2)) for _ in range(n + 1)]
    cg = [draw(inline_gap()) for _ in range(2 * n)]
    return {"k": "tuple", "pairs": pairs, "g": g, "cg": cg, "trail": draw(st.booleans())}


def any_value(unq_classes=("id", "plain1", "id_plain", "multi_token")):
    return st.one_of(
        scalar_values(unq_classes, allow_colon=True), scalar_values(unq_classes, allow_colon=True),
        list_values(0, tuple(c for c in unq_classes if c != "multi_token") or ("id",)), tuple_values())


@st.composite
def commands(draw, value_strategy=None, max_args=5):
    value_strategy = value_strategy or any_value()
    n = draw(st.integers(0, max_args))
    names = draw(st.lists(IDENT, min_size=n, max_size=n, unique=True))
    args = []
    for nm in names:
        args.append({"name": nm, "value": draw(value_strategy), "g": [draw(gaps(4)), draw(gaps(1)), draw(gaps(1)), draw(gaps(2))]})
    return {
        # one command in eight is written bare, the EEMS 2.0 way (no result name)
        "result": None if draw(st.integers(0, 7)) == 0 else draw(IDENT), "command": draw(IDENT), "args": args,
        # the opening parenthesis may stand on a later line than the command name (after a comment, too)
        "g": [draw(inline_gap()), draw(inline_gap()), draw(gaps(1)), draw(gaps(4))],
        "trail_comma": draw(st.booleans()),
        "after": draw(gaps(10)),
    }


@st.composite
def programs(draw, value_strategy=None, max_commands=5, nl=None):
    cmds = draw(st.lists(commands(value_strategy), min_size=1, max_size=max_commands))
    seen = set()
    for i, c in enumerate(cmds):
        while c["result"] is not None and c["result"] in seen:
            c["result"] = c["result"] + "_%d" % i
        seen.add(c["result"])
    prog = {
        "nl": nl or draw(st.sampled_from(["\n", "\n", "\n", "\r\n", "\r\n", "\r"])),
        "head": draw(gaps(3)), "commands": cmds, "tail": draw(gaps(3)),
    }
    if draw(st.integers(0, 5)) == 0:
        prog["nl_mix"] = draw(st.lists(st.sampled_from(["\n", "\r", "\r\n"]), min_size=2, max_size=5))
    eof = draw(st.sampled_from([None, None, None, "#", " # done", "#) = [", "  "]))
    if eof:
        prog["eof"] = eof
    return prog


def strip_layout(prog):
    """The same abstract program with a canonical layout (for metamorphic comparison)."""
    def v(x):
        k = x["k"]
        if k == "list":
            return {"k": "list", "items": [v(i) for i in x["items"]], "trail": False}
        if k == "tuple":
            return {"k": "tuple", "pairs": [[v(a), v(b)] for a, b in x["pairs"]], "trail": False}
        if k == "str" and x.get("q") != "none":
            if x.get("raw_nl"):
                return {"k": "str", "q": "double", "v": x["v"].replace("\n", prog.get("nl", "\n"))}
            return dict(x, q="double")
        return dict(x)
    return {
        "nl": "\n",
        "commands": [
            {"result": c.get("result"), "command": c["command"],
             "args": [{"name": a["name"], "value": v(a["value"])} for a in c["args"]]}
            for c in prog["commands"]
        ],
    }
