"""C14 -- cyclic models are rejected, never silently skipped."""
from __future__ import annotations

import itertools

import os

from hypothesis import strategies as st

from .. import vlog
from ..core import Failure, drive, drive_enum

ID = "C14"
LEVEL = "fault_enumeration"
DESIGN_REF = "DESIGN.md section 3, C14"
TECHNIQUE = "exhaustive enumeration of all cyclic digraphs on <= 3 commands x reference kinds x textual orders, Hypothesis generation for 4-5 commands, with acyclic controls; outcome oracle == RecursiveModelStructure"
LEVEL_TEXT = (
    "Every directed graph on up to 3 commands (self-loops included) that contains a cycle is realised as a program over "
    "a logging test library, with edges as direct or list references (all-direct, all-list and mixed assignments) and in "
    "every textual order; graphs on 4-5 commands (self-loops, 2-cycles, long cycles, tails into and out of cycles, "
    "separate acyclic components) are generated, and a slice uses built-in commands (Sum / FuzzyOr over CvtToFuzzy over "
    "CSV reads). Program.run() must raise RecursiveModelStructure: returning normally, a RecursionError or an "
    "UnexpectedError are violations. Acyclic graphs from the same generators must run to completion with every command "
    "executed. Exhaustive for <= 3 commands, sampled for 4-5."
    ' The generated graphs are also built through add_command (references by name and as Command objects); cycles made of PrintVars commands and cycles behind saturated feeders are in the built-in slice; a sixth of the cyclic source models also goes through the command-line tool (non-zero exit status, recursive-model message).'
)
LEVEL_TEXT += ' Added later: builds that edit a finished program into the cyclic model (through add_command or straight in program.commands) and builds whose argument lists were used before by an acyclic program.'
LEVEL_NOTE = "Which commands outside the cycle ran before the rejection is not asserted (the statement does not say)."
RULE = (
    "Cases: {n, adjacency (who references whom), edge kinds, textual order, library}. Enumerated for n<=3; generated for "
    "n=4,5. Oracle: cyclic => run() raises RecursiveModelStructure; acyclic control => run() returns and all commands "
    "executed once. Non-trivial: a cycle of length >= 2 together with an acyclic tail or a separate component; "
    "distinct = digest of the case."
)
ASSUMPTIONS = ["the reference graph is taken from the Result and list-of-Result parameters only"]

LIBS = ("vlib_verif",)


def name(i):
    return "X%d" % i


def has_cycle(n, adj):
    color = [0] * n

    def visit(u):
        color[u] = 1
        for v in adj[u]:
            if color[v] == 1 or (color[v] == 0 and visit(v)):
                return True
        color[u] = 2
        return False

    return any(color[u] == 0 and visit(u) for u in range(n))


def cycle_nodes(n, adj):
    """Nodes lying on some cycle."""
    on = set()
    for s in range(n):
        stack, seen = [(s, iter(adj[s]))], {s}
        # s is on a cycle iff s is reachable from one of its successors
        reach, todo = set(), list(adj[s])
        while todo:
            u = todo.pop()
            if u in reach:
                continue
            reach.add(u)
            todo.extend(adj[u])
        if s in reach:
            on.add(s)
    return on


def source_text(case):
    n, adj, kinds = case["n"], case["adj"], case["kinds"]
    lines = []
    if case.get("lib") == "builtin":
        # the acyclic feeder's data: mixed, or saturated (all cells fully true / fully false / zero), so that a command
        # whose value is already decided by the feeder still has to notice the cycle behind its other inputs
        sat = case.get("sat", "mixed")
        lines.append('Src = EEMSRead(InFileName = "%s", InFieldName = "%s")' % (
            case.get("csv", "/nonexistent.csv"), {"mixed": "a", "true": "o", "false": "z", "zero": "z"}[sat]))
        lines.append("Fz = CvtToFuzzy(InFieldName = Src, TrueThreshold = %s, FalseThreshold = %s)" % {
            "mixed": (1, 0), "true": (-5, -10), "false": (10, 5), "zero": (1, -1)}[sat])
    for i in case["order"]:
        refs = adj[i]
        if case.get("lib") == "builtin" and case.get("printvars") is not None:
            # side-effect commands take part in cycles too: PrintVars accepts any result, also another PrintVars
            items = [name(c) for c in refs]
            items.insert((case.get("poff", 0) + i) % (len(refs) + 1), "Fz" if case.get("fuzzy") else "Src")
            out = ""
            if case["printvars"] >> i & 1:
                out = ', OutFileName = "%s"' % os.path.join(os.path.dirname(case.get("csv", "/nonexistent.csv")), "printed_%d.txt" % i).replace("\\", "/")
            lines.append("%s = PrintVars(InFieldNames = [%s]%s)" % (name(i), ", ".join(items), out))
            continue
        if case.get("lib") == "builtin":
            fuzzy = case.get("fuzzy")
            base = "Fz" if fuzzy else "Src"
            direct = (case.get("pick", 0) + 2 * i) % 3
            if len(refs) == 1 and direct == 0:
                lines.append("%s = %s(InFieldName = %s)" % (name(i), "FuzzyNot" if fuzzy else "Copy", name(refs[0])))
                continue
            if len(refs) == 1 and direct == 1 and not fuzzy:
                lines.append("%s = Normalize(InFieldName = %s, StartVal = 0, EndVal = 2)" % (name(i), name(refs[0])))
                continue
            if len(refs) == 2 and direct != 2 and not fuzzy:
                lines.append("%s = %s(A = %s, B = %s)" % (name(i), "AMinusB" if direct else "ADividedByB", name(refs[0]), name(refs[1])))
                continue
            pos = (case.get("poff", case.get("pick", 0)) + i) % (len(refs) + 1)
            items = [name(c) for c in refs]
            items.insert(pos, base)  # the data source stands anywhere in the list
            if "voff" in case:
                variants = ["FuzzyOr", "FuzzyAnd", "FuzzyWeightedUnion", "FuzzyUnion", "FuzzyXOr", "FuzzySelectedUnion"] if fuzzy else [
                    "Sum", "Multiply", "WeightedSum", "Minimum", "WeightedMean", "Maximum", "Mean"]
            else:  # cases recorded before the variant offset existed
                variants = ["FuzzyOr", "FuzzyWeightedUnion", "FuzzyUnion", "FuzzyXOr"] if fuzzy else ["Sum", "WeightedSum", "WeightedMean", "Maximum", "Mean"]
            cmd = variants[(case.get("voff", case.get("pick", 0) // 2) + i) % len(variants)]
            if cmd == "FuzzyXOr" and len(items) < 2:
                cmd = "FuzzyOr"
            extra = ""
            if "Weighted" in cmd:
                ws = [[1, 0, 0.5, 0, 2][(k + case.get("pick", 0)) % 5] for k in range(len(items))]
                if sum(ws) == 0:
                    ws[0] = 1
                extra = ", Weights = [%s]" % ", ".join(str(w) for w in ws)
            if cmd == "FuzzySelectedUnion":
                extra = ", TruestOrFalsest = %s, NumberToConsider = 1" % ("Truest" if case.get("pick", 0) % 2 else "Falsest")
            lines.append("%s = %s(InFieldNames = [%s]%s)" % (name(i), cmd, ", ".join(items), extra))
            continue
        args = []
        direct = [c for c, k in zip(refs, kinds[i]) if k == "d"]
        for key, c in zip(("A", "B", "C"), direct):
            args.append("%s = %s" % (key, name(c)))
        ls = [c for c, k in zip(refs, kinds[i]) if k != "d"] + direct[3:]
        if ls:
            args.append("L = [%s]" % ", ".join(name(c) for c in ls))
        lines.append("%s = Node(%s)" % (name(i), ", ".join(args)))
    return "\n".join(lines)


_CSV = {}


def csv_path():
    import os
    import tempfile

    if "p" not in _CSV or not os.path.exists(_CSV["p"]):
        d = tempfile.mkdtemp(prefix="vcheck-c14-")
        _CSV["d"] = d
        _CSV["p"] = os.path.join(d, "in.csv")
        with open(_CSV["p"], "w") as f:
            f.write("a,o,z\n0.5,1,0\n1.5,1,0\n0,1,0\n")
    return _CSV["p"]


def check_case(case, rec):
    from mpilot.exceptions import RecursiveModelStructure, UnexpectedError
    from mpilot.program import EEMS_CSV_LIBRARIES, Program

    n, adj = case["n"], case["adj"]
    cyclic = has_cycle(n, adj)
    builtin = case.get("lib") == "builtin"
    if builtin:
        case = dict(case, csv=csv_path())
    text = source_text(case)
    vlog.reset(cap=40 * (n + 10) + 2000)
    build = case.get("build", "source") if not builtin else "source"
    try:
        if build == "source":
            prog = Program.from_source(text, libraries=EEMS_CSV_LIBRARIES if builtin else LIBS)
        else:
            # the same graph through add_command; in "api_objects" every reference to a command that exists already
            # is handed over as the Command object itself (a cycle needs at least one reference by name)
            prog = Program(libraries=LIBS)
            node_cls = prog.find_command_class("Node")
            ref = lambda c: prog.commands[name(c)] if build == "api_objects" and name(c) in prog.commands else name(c)
            def arguments(i):
                refs, kinds = adj[i], case["kinds"][i]
                direct = [c for c, k in zip(refs, kinds) if k == "d"]
                args = {key: ref(c) for key, c in zip(("A", "B", "C"), direct)}
                ls = [c for c, k in zip(refs, kinds) if k != "d"] + direct[3:]
                if ls:
                    args["L"] = [ref(c) for c in ls]
                return args

            # (only with references by name: a reference handed over as an object stays with that object, by the caller's choice)
            replaced = case["replace"] % n if case.get("replace") is not None and build == "api" else None
            if build == "api_shared_lists":
                # a model description kept in Python lists and used twice: first for a program in which the same names are
                # stand-alone commands (acyclic; it is run), then -- the very same list objects -- for this model
                first = Program(libraries=LIBS)
                shared = {}
                for i in case["order"]:
                    first.add_command(node_cls, name(i), {})
                for i in case["order"]:
                    shared[i] = arguments(i)
                    if shared[i]:
                        first.add_command(node_cls, "Y%d" % i, dict(shared[i]))
                first.run()
                vlog.reset(cap=40 * (n + 10) + 2000)
                for i in case["order"]:
                    prog.add_command(node_cls, name(i), dict(shared[i]))
            if build in ("api_after_run", "dict_after_run"):
                # a finished program edited into this model: every command first stands alone (no references), the
                # program is run, then the commands with references are deleted and put back with them -- through
                # add_command, or straight into the documented `commands` dictionary
                from mpilot.arguments import Argument

                for i in case["order"]:
                    prog.add_command(node_cls, name(i), {})
                prog.run()
                for r in range(case.get("pick", 0) % 2):
                    prog.run()
                vlog.reset(cap=40 * (n + 10) + 2000)
                for i in case["order"]:
                    if not adj[i]:
                        continue
                    del prog.commands[name(i)]
                    if build == "api_after_run":
                        prog.add_command(node_cls, name(i), arguments(i))
                    else:
                        prog.commands[name(i)] = node_cls(name(i), [Argument(k, v) for k, v in arguments(i).items()], program=prog)
            for i in ([] if build in ("api_after_run", "dict_after_run", "api_shared_lists") else case["order"]):
                # a model edited the documented way: one command first added without its references, later deleted
                # and added again under the same name with them
                prog.add_command(node_cls, name(i), {} if i == replaced else arguments(i))
            if replaced is not None:
                del prog.commands[name(replaced)]
                prog.add_command(node_cls, name(replaced), arguments(replaced))
                rec.label("command_replaced")
            rec.label("build:" + build)
    except Exception as exc:
        return [Failure("load_raises:%s" % type(exc).__name__, "%r\n%s" % (exc, text))]
    on = cycle_nodes(n, adj)
    longest = "self_loop_only" if on and all(i in adj[i] for i in on) and all(
        set(adj[i]) & on <= {i} for i in on) else ("cycle" if on else "acyclic")
    tails = bool(on) and len(on) < n
    cls = "%s%s/%s" % (longest, "+tail_or_component" if tails else "", "builtin" if builtin else "testlib")
    rec.label(cls)
    outcome = None
    try:
        prog.run()
        outcome = "ok"
    except RecursiveModelStructure:
        outcome = "recursive_model_error"
    except UnexpectedError as exc:
        outcome = "UnexpectedError(%s)" % type(exc.exc).__name__
    except RecursionError:
        outcome = "RecursionError"
    except Exception as exc:
        outcome = type(exc).__name__
    def attempt(fn):
        try:
            fn()
            return "ok"
        except RecursiveModelStructure:
            return "recursive_model_error"
        except UnexpectedError as exc:
            return "UnexpectedError(%s)" % type(exc.exc).__name__
        except RecursionError:
            return "RecursionError"
        except Exception as exc:
            return type(exc).__name__

    fails = []
    if cyclic and outcome == "recursive_model_error" and case.get("again", True):
        # the model stays rejected however often it is run or its results are read afterwards
        on_list = sorted(on)
        target = name(on_list[(case.get("pick", 0)) % len(on_list)])
        second = attempt(lambda: prog.commands[target].result) if case.get("pick", 0) % 2 else attempt(prog.run)
        third = attempt(prog.run)
        rec.label("rerun_after_rejection")
        if second != "recursive_model_error" or third != "recursive_model_error":
            fails.append(Failure("cyclic_model_rerun:%s/%s|%s" % (second, third, cls),
                                 "after the first rejection: second attempt %s, third run() %s for\n%s" % (second, third, text)))
    if cyclic and build == "source" and (case.get("pick", 0) + n) % 6 == 0:
        # the command-line tool: the same rejection, reported on stderr with a non-zero exit status
        import shutil
        import tempfile

        from click.testing import CliRunner
        from mpilot.cli.mpilot import main

        tmp = tempfile.mkdtemp(prefix="vcheck-c14-cli-")
        try:
            for final_newline in (False, True):
                path = os.path.join(tmp, "model.mpt")
                with open(path, "w") as f:
                    f.write(text + ("\n" if final_newline else ""))
                res = CliRunner().invoke(main, ["eems-csv", path] + ([] if builtin else ["-l", "vlib_verif"]))
                rec.label("cli_run")
                try:
                    stderr = res.stderr
                except Exception:
                    stderr = res.output
                if res.exception is not None and not isinstance(res.exception, SystemExit):
                    fails.append(Failure("cyclic_model_cli:traceback:%s|%s" % (type(res.exception).__name__, cls), "%r\n%s" % (res.exception, text)))
                elif res.exit_code == 0:
                    fails.append(Failure("cyclic_model_cli:exit_zero|%s" % cls, "exit status 0 (stderr %r) for\n%s" % (stderr[-200:], text)))
                elif "recursive" not in stderr.lower():
                    fails.append(Failure("cyclic_model_cli:message|%s" % cls, "stderr %r for\n%s" % (stderr[-300:], text)))
                if fails:
                    break
        finally:
            shutil.rmtree(tmp, ignore_errors=True)
    if cyclic:
        if outcome != "recursive_model_error":
            executed = sorted(set(nm for ev, nm in vlog.LOG if ev == "enter"))
            fails.append(Failure("cyclic_model:%s|%s" % (outcome, cls),
                                 "run() outcome %s (executed %r) for\n%s" % (outcome, executed, text)))
        if longest == "cycle" and tails:
            rec.nontrivial_case(case)
            rec.label("nontrivial", sample={"text": text} if n <= 4 else None)
    else:
        if outcome != "ok":
            fails.append(Failure("acyclic_control:%s|%s" % (outcome, cls), "acyclic model rejected:\n%s" % text))
        elif not builtin:
            counts = {}
            for ev, nm in vlog.LOG:
                if ev == "enter":
                    counts[nm] = counts.get(nm, 0) + 1
            # (in a finished program that was edited, only the commands put back are new and have yet to execute)
            due = [i for i in range(n) if adj[i]] if build in ("api_after_run", "dict_after_run") else range(n)
            if sorted(counts) != sorted(name(i) for i in due) or any(v != 1 for v in counts.values()):
                fails.append(Failure("acyclic_control:not_all_executed_once|%s" % cls, "%r\n%s" % (counts, text)))
        rec.label("acyclic_control")
    return fails


def kind_assignments(adj, full):
    e = sum(len(a) for a in adj)
    if e == 0:
        return [[[] for _ in adj]]
    flat = []
    if full and e <= 4:
        flat = list(itertools.product("dl", repeat=e))
    else:
        flat = [tuple("d" * e), tuple("l" * e), tuple("dl"[(k * 3 + 1) % 2] for k in range(e)), tuple("dl"[(k // 2) % 2] for k in range(e))]
        flat = list(dict.fromkeys(flat))
    out = []
    for f in flat:
        pos, kinds = 0, []
        for a in adj:
            kinds.append(list(f[pos:pos + len(a)]))
            pos += len(a)
        out.append(kinds)
    return out


def small_graphs(ctx):
    for n in (1, 2, 3):
        pairs = [(i, j) for i in range(n) for j in range(n)]
        for bits in range(1 << len(pairs)):
            adj = [[] for _ in range(n)]
            for b, (i, j) in enumerate(pairs):
                if bits >> b & 1:
                    adj[i].append(j)
            cyc = has_cycle(n, adj)
            if not cyc and bits % 4:
                continue  # keep a quarter of the acyclic graphs as controls
            for kinds in kind_assignments(adj, full=not ctx.quick):
                orders = list(itertools.permutations(range(n)))
                for order in orders:
                    yield {"n": n, "adj": adj, "kinds": kinds, "order": list(order), "lib": "testlib", "pick": bits + len(kinds[0])}
                    if (bits + sum(order[:1])) % 3 == 0 or not ctx.quick:
                        for build in ("api", "api_objects"):
                            yield {"n": n, "adj": adj, "kinds": kinds, "order": list(order), "lib": "testlib", "pick": bits + len(kinds[0]), "build": build}
                            yield {"n": n, "adj": adj, "kinds": kinds, "order": list(order), "lib": "testlib", "pick": bits + len(kinds[0]), "build": build,
                                   "replace": bits % n}
                        for build in ("api_after_run", "dict_after_run", "api_shared_lists"):
                            yield {"n": n, "adj": adj, "kinds": kinds, "order": list(order), "lib": "testlib", "pick": bits + len(kinds[0]), "build": build}
            # every reference mentioned twice by its command (once as written, once more in its list parameter)
            if bits % 2 == 0 or not ctx.quick:
                for kinds in kind_assignments(adj, full=False)[:2]:
                    for order in (list(range(n)), list(range(n))[::-1]):
                        yield {"n": n, "adj": [a + a for a in adj], "kinds": [k + ["l"] * len(k) for k in kinds], "order": order,
                               "lib": "testlib", "pick": bits, "build": ["source", "api", "api_objects"][bits % 3]}
            if n <= 2 or bits % 7 == 0:
                for outs in range(1 << n):
                    for poff in range(n + 1):
                        yield {"n": n, "adj": adj, "kinds": None, "order": list(range(n)), "lib": "builtin", "fuzzy": bool(outs & 1),
                               "pick": 0, "poff": poff, "printvars": outs, "sat": "mixed"}
                k = 0
                for fuzzy in (False, True):
                    for pick in range(3):
                        for voff in range(6 if fuzzy else 7):
                            for poff in range(n + 1):
                                for sat in ("mixed", "true", "false", "zero"):
                                    k += 1
                                    if ctx.quick and (k + bits) % 4:
                                        continue
                                    yield {"n": n, "adj": adj, "kinds": None, "order": list(range(n)), "lib": "builtin",
                                           "fuzzy": fuzzy, "pick": pick, "voff": voff, "poff": poff, "sat": sat}


@st.composite
def larger_graphs(draw):
    n = draw(st.integers(4, 5))
    adj = [[] for _ in range(n)]
    style = draw(st.sampled_from(["random", "cycle_with_tails", "two_components", "self_loop", "acyclic"]))
    if style == "random":
        for i in range(n):
            adj[i] = draw(st.lists(st.integers(0, n - 1), max_size=3, unique=draw(st.booleans())))
    elif style == "acyclic":
        for i in range(n):
            adj[i] = draw(st.lists(st.integers(0, i - 1), max_size=3, unique=True)) if i else []
    else:
        k = draw(st.integers(2, n - 1)) if style != "self_loop" else 1
        members = draw(st.permutations(list(range(n))))[:k]
        for a, b in zip(members, members[1:] + members[:1]):
            adj[a].append(b)
        rest = [i for i in range(n) if i not in members]
        for r in rest:
            if style == "two_components":
                others = [x for x in rest if x < r]
                adj[r] = draw(st.lists(st.sampled_from(others), max_size=2, unique=True)) if others else []
            elif draw(st.booleans()):
                adj[r].append(draw(st.sampled_from(list(members))))  # tail into the cycle
            else:
                m = draw(st.sampled_from(list(members)))
                if r not in adj[m] and len(adj[m]) < 3:
                    adj[m].append(r)  # tail out of the cycle
    kinds = [[draw(st.sampled_from("dl")) for _ in a] for a in adj]
    order = list(draw(st.permutations(list(range(n)))))
    lib = draw(st.sampled_from(["testlib", "testlib", "testlib", "builtin"]))
    return {"n": n, "adj": adj, "kinds": kinds, "order": order, "lib": lib, "fuzzy": draw(st.booleans()), "pick": draw(st.integers(0, 9)),
            "voff": draw(st.integers(0, 6)), "poff": draw(st.integers(0, 5)), "sat": draw(st.sampled_from(["mixed", "true", "false", "zero"])),
            "printvars": draw(st.sampled_from([None, None, None, 0, 1, 5, 31, 10])), "build": draw(st.sampled_from(["source", "source", "api", "api_objects", "api_after_run", "dict_after_run", "api_shared_lists"])),
            "replace": draw(st.sampled_from([None, None, 0, 1, 2, 3, 4]))}


PARTS = {"graph": check_case}


def run_shard(ctx, rec):
    try:
        drive_enum(ctx, rec, "graph", small_graphs(ctx), check_case, exhaustive=True)
        drive(ctx, rec, "graph", larger_graphs(), check_case, ctx.n(1500, 40000))
    finally:
        import shutil

        if _CSV.get("d"):
            shutil.rmtree(_CSV["d"], ignore_errors=True)
