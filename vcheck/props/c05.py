"""C05 -- results keep the input shape; cells are computed independently."""
from __future__ import annotations

import numpy
from hypothesis import strategies as st

from .. import arr as A
from .. import unit as U
from ..core import drive_enum
from ..core import Failure, drive
from ..gen import arrays as G
from ..ref import commands as R

ID = "C05"
LEVEL = "exploration"
DESIGN_REF = "DESIGN.md section 3, C05"
TECHNIQUE = "Hypothesis generation with metamorphic relations: cmd(perm x) == perm cmd(x) and cmd(reshape x) == reshape cmd(x); shape(out) == shape(in)"
LEVEL_TEXT = (
    "For every one of the 30 data commands a base case is drawn on a vector of N <= 24 cells; then all inputs are "
    "rearranged by one random permutation, reshaped into every factorisation of N of rank 2 and 3 (length-1 axes "
    "included) and presented as transposed (non-contiguous) views of those grids. The result must have exactly the input shape and equal the correspondingly rearranged base result "
    "(masks identical, values within 1e-9 relative). No reference semantics are involved. Sampled, not exhaustive."
    ' A replication relation (the same cells laid end to end up to 6000 times give the same results as many times over) and nearly equal large values (250001..250003) in double precision are included.'
)
LEVEL_TEXT += ' Added later: replications beyond a million cells (generated, and enumerated for the many-input commands).'
LEVEL_NOTE = "Whole-array statistics are order-independent on the dyadic lattice inputs used; a 1e-9 relative tolerance absorbs summation-order rounding."
RULE = (
    "Hypothesis draws (command, parameters, 1-5 input vectors of N<=24 cells with masks, int64/float64) and a "
    "permutation of the N cells; every factorisation of N into rank-2 and rank-3 shapes is enumerated per case. "
    "Oracle: out.shape == in.shape; cmd(perm x) == perm cmd(x); cmd(reshape x) == reshape cmd(x); same outcome "
    "kind. Non-trivial: the base run succeeded and the case has either a non-identity permutation or a reshape of "
    "rank >= 2 without length-1 axes, with >= 2 inputs for n-ary commands; distinct = digest of the case."
)
ASSUMPTIONS = ["all inputs of one command share one shape", "results of the base run that raise are compared by outcome kind only"]

CMDS = list(R.ALL)


def factorisations(n):
    out = []
    for a in range(1, n + 1):
        if n % a:
            continue
        out.append([a, n // a])
        for b in range(1, n // a + 1):
            if (n // a) % b == 0:
                out.append([a, b, n // a // b])
    return out


def kind_of(status, result):
    return "ok" if status == "ok" else "err:" + A.exc_name(result)


def check_unit(case, rec):
    cmd = case["cmd"]
    n_cells = len(case["arrays"][0]["data"]) if case["arrays"] else 0
    base_arrays = [A.make_array(s, [n_cells]) for s in case["arrays"]]
    sig = "%s|%s" % (cmd, "n%d" % len(base_arrays))
    st0, r0 = A.run_command(cmd, base_arrays, case["params"], aliases=case.get("aliases"))
    tol = 1e-5 if any(sp["dtype"] == "float32" for sp in case["arrays"]) else 1e-9
    if cmd in R.STATISTICAL and base_arrays:
        # statistics of values with a large common offset are conditioned by offset / spread: the order of summation
        # legitimately moves the result by a few thousand units of round-off times that ratio, and no more
        valid = numpy.concatenate([numpy.ma.compressed(a).astype(float) for a in base_arrays]) if n_cells else numpy.zeros(0)
        if valid.size and numpy.isfinite(valid).all() and valid.std() > 0:
            tol = max(tol, 2000 * 2.3e-16 * float(numpy.abs(valid).max()) / float(valid.std()))
    fails = []
    rec.label("cmd:" + cmd)
    if st0 == "ok":
        if not isinstance(r0, numpy.ndarray) or tuple(r0.shape) != (n_cells,):
            return [Failure(sig + "|shape:rank1", "result shape %r for input shape %r" % (getattr(r0, "shape", None), (n_cells,)))]
    k0 = kind_of(st0, r0)
    nontrivial = False

    # permutation
    perm = case.get("perm")
    if perm and len(perm) == n_cells:
        p = numpy.array(perm)
        parr = [a[p] for a in base_arrays]
        st1, r1 = A.run_command(cmd, parr, case["params"], aliases=case.get("aliases"))
        rec.label("permutation")
        if kind_of(st1, r1) != k0:
            fails.append(Failure(sig + "|permute:outcome", "%s vs %s" % (k0, kind_of(st1, r1))))
        elif st0 == "ok":
            if not isinstance(r1, numpy.ndarray) or r1.shape != r0.shape:
                fails.append(Failure(sig + "|permute:shape", "%r" % (getattr(r1, "shape", None),)))
            elif not U.result_equal(r1, r0[p], tol):
                fails.append(Failure(sig + "|permute:value", "cmd(perm x) != perm cmd(x) for perm %r" % (perm,)))
            if perm != sorted(perm):
                nontrivial = True

    # reshapes
    for shape in factorisations(n_cells):
        rarr = [a.reshape(shape) for a in base_arrays]
        st2, r2 = A.run_command(cmd, rarr, case["params"], aliases=case.get("aliases"))
        rec.label("reshape:rank%d" % len(shape))
        cls = "rank%d" % len(shape)
        if kind_of(st2, r2) != k0:
            fails.append(Failure("%s|reshape:%s:outcome" % (sig, cls), "shape %r: %s vs %s" % (shape, kind_of(st2, r2), k0)))
            break
        if st0 != "ok":
            continue
        if not isinstance(r2, numpy.ndarray) or list(r2.shape) != list(shape):
            fails.append(Failure("%s|reshape:%s:shape" % (sig, cls), "input shape %r, result shape %r" % (shape, getattr(r2, "shape", None))))
            break
        if not U.result_equal(r2, r0.reshape(shape), tol):
            fails.append(Failure("%s|reshape:%s:value" % (sig, cls), "cmd(reshape x) != reshape cmd(x) for shape %r" % (shape,)))
            break
        if min(shape) > 1:
            nontrivial = True
            rec.label("reshape_no_unit_axis")
        # transposition is a common permutation of the cells; the transposed inputs are non-contiguous views
        if sum(1 for d in shape if d > 1) >= 2:
            tarr = [a.T for a in rarr]
            st3, r3 = A.run_command(cmd, tarr, case["params"], aliases=case.get("aliases"))
            rec.label("transposed_view")
            if kind_of(st3, r3) != k0:
                fails.append(Failure("%s|transpose:%s:outcome" % (sig, cls), "shape %r transposed: %s vs %s" % (shape, kind_of(st3, r3), k0)))
                break
            if not isinstance(r3, numpy.ndarray) or list(r3.shape) != list(shape)[::-1]:
                fails.append(Failure("%s|transpose:%s:shape" % (sig, cls), "input shape %r, result shape %r" % (shape[::-1], getattr(r3, "shape", None))))
                break
            if not U.result_equal(r3, r2.T, tol):
                fails.append(Failure("%s|transpose:%s:value" % (sig, cls), "cmd(x.T) != cmd(x).T for shape %r" % (shape,)))
                break
    # many cells: the same cells laid end to end k times give the same results k times over (statistics of the valid
    # cells -- minimum, maximum, mean, population spread -- do not change when every cell is repeated)
    k = case.get("rep")
    distinct_valid = len(set(x for a in base_arrays for x in numpy.ma.compressed(a).tolist()))
    if k and st0 == "ok" and n_cells and not fails and not (cmd in R.STATISTICAL and (distinct_valid < 2 or tol > 1e-9)):
        # (single-precision statistics over many cells accumulate more error than any fixed tolerance: not replicated)
        big = [numpy.ma.concatenate([a] * k) if numpy.ma.isMaskedArray(a) else numpy.concatenate([a] * k) for a in base_arrays]
        big = [numpy.ma.array(b, copy=False) for b in big]
        st4, r4 = A.run_command(cmd, big, case["params"], aliases=case.get("aliases"))
        rec.label("replicated:x%d" % k)
        if kind_of(st4, r4) != k0:
            fails.append(Failure(sig + "|replicate:outcome", "%d cells x %d: %s vs %s" % (n_cells, k, kind_of(st4, r4), k0)))
        elif not isinstance(r4, numpy.ndarray) or r4.shape != (n_cells * k,):
            fails.append(Failure(sig + "|replicate:shape", "%r for %d cells" % (getattr(r4, "shape", None), n_cells * k)))
        elif not U.result_equal(r4, numpy.ma.concatenate([r0] * k), max(tol, 1e-7 if cmd in R.STATISTICAL else tol)):
            fails.append(Failure(sig + "|replicate:value", "cmd of %d copies of x != %d copies of cmd(x)" % (k, k)))
        if k >= 1000:
            nontrivial = True
    if st0 == "ok" and nontrivial and (cmd not in R.NARY or len(base_arrays) >= 2):
        rec.nontrivial_case(case)
        rec.label("nontrivial:" + ("nary" if cmd in R.NARY else "other"), sample=case if n_cells <= 6 else None)
    return fails


@st.composite
def perm_case(draw):
    case = draw(G.unit_case(CMDS, max_rank=1, max_cells=24, two_distinct=True, close=True, dtypes=("float64", "int64", "float64", "int64", "float32", "int32")))
    n = len(case["arrays"][0]["data"])
    case["perm"] = list(draw(st.permutations(list(range(n)))))
    case["shape"] = [n]
    case["rep"] = draw(st.sampled_from([None, None, 2, 3, 1000, 6000]))
    if draw(st.integers(0, 39)) == 0:
        case["rep"] = 1 + (2 ** 20 + 4000) // max(1, n)  # beyond a million cells (and not a round number of them)
    return case


PARTS = {"unit": check_unit}


OFFSET_PARAMS = {
    "Normalize": {}, "NormalizeZScore": {"TrueThresholdZScore": 1, "FalseThresholdZScore": -1}, "CvtToFuzzyZScore": {},
    "NormalizeMeanToMid": {"IgnoreZeros": False, "NormalValues": [0, 0.25, 0.5, 0.75, 1]},
    "CvtToFuzzyMeanToMid": {"IgnoreZeros": False, "FuzzyValues": [-1, -0.5, 0, 0.5, 1]},
    "NormalizeCurveZScore": {"ZScoreValues": [-1, 0, 1], "NormalValues": [0, 0.5, 1]},
    "CvtToFuzzyCurveZScore": {"ZScoreValues": [-1.5, 0, 1.5], "FuzzyValues": [-1, 0, 1]},
}


def offset_cases():
    """Coordinates, time stamps: values with a large common offset and a small spread, under the commands that take
    statistics of the whole field -- rearranged, reshaped and transposed like everything else."""
    steps = [0.0, 0.37, 1.12, 1.9, 2.75, 3.3, 4.05, 4.6, 5.81, 6.2, 7.33, 8.0]
    for offset in (4512340.0, 1.7e9, -250000.0):
        data = [offset + d for d in steps]
        for cmd in sorted(OFFSET_PARAMS):
            for perm in (list(range(12))[::-1], list(range(5, 12)) + list(range(5)), [7, 2, 11, 0, 9, 4, 1, 10, 5, 8, 3, 6]):
                for mask in (None, [0, 0, 1, 0, 0, 0, 0, 0, 0, 1, 0, 0]):
                    yield {"cmd": cmd, "params": OFFSET_PARAMS[cmd], "arrays": [{"data": data, "mask": mask, "dtype": "float64"}],
                           "perm": perm, "shape": [12], "rep": None}


def million_cell_cases():
    """Rasters of more than a million cells (not a power of two of them) under the commands that combine several inputs:
    the same 24 cells laid end to end, every cell computed as in the small array."""
    vals = [-1.0, -0.5, 0.0, 0.25, 0.75, 1.0]
    arrays = []
    for i in range(3):
        data = [vals[(k * (i + 2) + i * i) % 6] for k in range(24)]
        mask = None if i != 1 else [1 if k in (5, 17) else 0 for k in range(24)]
        arrays.append({"data": data, "mask": mask, "dtype": "float64"})
    plans = [("FuzzyXOr", {}), ("FuzzySelectedUnion", {"TruestOrFalsest": "Truest", "NumberToConsider": 1}),
             ("FuzzySelectedUnion", {"TruestOrFalsest": "Falsest", "NumberToConsider": 2}), ("FuzzyOr", {}), ("FuzzyAnd", {}), ("FuzzyUnion", {}),
             ("FuzzyWeightedUnion", {"Weights": [1, 2, 0.5]}), ("Sum", {}), ("Multiply", {}), ("Minimum", {}), ("Maximum", {}), ("Mean", {}),
             ("WeightedSum", {"Weights": [1, 2, 0.5]}), ("WeightedMean", {"Weights": [1, 2, 0.5]})]
    for cmd, params in plans:
        for order in ((0, 1, 2), (2, 0, 1)):
            yield {"cmd": cmd, "params": params, "arrays": [arrays[j] for j in order], "perm": list(range(24))[::-1], "shape": [24],
                   "rep": (2 ** 20 + 4000) // 24}


def run_shard(ctx, rec):
    drive_enum(ctx, rec, "unit", offset_cases(), check_unit, exhaustive=True, tag="unit/large_offset")
    drive_enum(ctx, rec, "unit", million_cell_cases(), check_unit, exhaustive=True, tag="unit/million_cells")
    drive(ctx, rec, "unit", perm_case(), check_unit, ctx.n(3000, 100000))
