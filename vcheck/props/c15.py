"""C15 -- serialising a program and loading it back gives the same program."""
from __future__ import annotations

import math
import os
import shutil
import tempfile

import numpy
from hypothesis import strategies as st

from .. import unit as U
from ..core import Failure, drive, drive_enum
from ..gen import models as M
from ..gen import render as RD

ID = "C15"
LEVEL = "exploration"
DESIGN_REF = "DESIGN.md section 3, C15"
TECHNIQUE = "Hypothesis generation of programs (from source and through add_command) with hostile values: round trip from_source(P.to_string()) compared structurally under each parameter's own cleaner, fixed point of to_string, equal results for runnable models"
LEVEL_TEXT = (
    "Programs over a test command with one parameter of every class and over generated runnable EEMS models are built "
    "from rendered source and through add_command with Python values (strings with quotes, backslashes, delimiters, "
    "blanks at the ends, line breaks and non-ASCII text; ints of any size; floats of every magnitude including exponent "
    "forms, -0.0, inf and nan; booleans; empty and nested lists; command objects and type objects as API values; "
    "metadata with hostile keys and values). P.to_string() is loaded again with the same libraries: result names and "
    "order, command classes, argument names and every cleaned argument value must be equal, the second serialise/load iteration must again be "
    "structurally equal, to_file must write the same text, and runnable models must give equal results. "
    "Sampled, not exhaustive."
    ' A reader part builds CSV and NetCDF readers through add_command with DataType as a name or a type object and compares outcome and results of the built and the reloaded program; long lists and strings (beyond 100 characters) and numeric metadata values are generated.'
)
LEVEL_TEXT += ' Added later: carriage returns in strings and metadata keys tools give a meaning to; the model part also builds twin programs from shared Argument objects, the other one run first.'
LEVEL_NOTE = "Values are compared after cleaning with the parameter's own cleaner (references by result name, NaN-aware, int/float kind preserved)."
RULE = (
    "Cases: {build: source|api, commands: [Kinds(...) with typed hostile values]} and typed EEMS models. Oracle: "
    "P2 = from_source(P.to_string()) has the same structure and cleaned values; the second iteration is structurally equal (metadata pair order is not compared); "
    "to_file == to_string; results equal after run(). Non-trivial: the program contains a value whose plain str() does "
    "not parse back to itself (needs escaping, exponent form, nesting, or is an API-only object); distinct = digest."
)
ASSUMPTIONS = ["the serialised text is loaded with the same libraries and working directory"]

LIBS = ("mpilot.libraries.eems.basic", "mpilot.libraries.eems.csv", "mpilot.libraries.eems.fuzzy", "vlib_verif")


# ----------------------------------------------------------------------------- value specs

def py_value(v, prog):
    """Python value handed to add_command."""
    t = v["t"]
    if t in ("str", "int", "float"):
        return v["v"]
    if t == "bool":
        return bool(v["v"])
    if t == "list":
        return [py_value(x, prog) for x in v["items"]]
    if t == "dict":
        return {k: val for k, val in v["items"]}
    if t == "ref":
        return prog.commands[v["name"]] if v.get("as") == "object" else v["name"]
    if t == "dtype":
        return {"Float": float, "Integer": int}[v["v"]] if v.get("as") == "object" else v["v"]
    raise ValueError(t)


def abstract_value(v):
    """Abstract renderer value (for programs built from source)."""
    t = v["t"]
    if t == "str":
        return {"k": "str", "v": v["v"], "q": "double"}
    if t == "int":
        return {"k": "int", "text": repr(v["v"])}
    if t == "float":
        x = v["v"]
        if math.isnan(x) or math.isinf(x):
            return {"k": "str", "v": repr(x), "q": "none"}
        text = repr(x)
        if "e" in text:
            m, e = text.split("e")
            text = (m if "." in m else m + ".0") + "e" + e
        return {"k": "float", "text": text}
    if t == "bool":
        return {"k": "str", "v": "true" if v["v"] else "false", "q": "none"}
    if t == "list":
        return {"k": "list", "items": [abstract_value(x) for x in v["items"]], "trail": False}
    if t == "dict":
        def scalar(x):
            if isinstance(x, str):
                return {"k": "str", "v": x, "q": "double"}
            return abstract_value({"t": "bool" if isinstance(x, bool) else "int" if isinstance(x, int) else "float", "v": x})

        return {"k": "tuple", "pairs": [[{"k": "str", "v": k, "q": "double"}, scalar(val)] for k, val in v["items"]], "trail": False}
    if t == "ref":
        return {"k": "str", "v": v["name"], "q": "none"}
    if t == "dtype":
        return {"k": "str", "v": v["v"], "q": "double"}
    raise ValueError(t)


def classes_of(v, acc=None):
    acc = set() if acc is None else acc
    t = v["t"]
    if t == "str":
        s = v["v"]
        if '"' in s or "'" in s:
            acc.add("str:quote")
        if "\\" in s:
            acc.add("str:backslash")
        if any(c in s for c in "#:,=()[]"):
            acc.add("str:delims")
        if any(ord(c) > 127 for c in s):
            acc.add("str:non_ascii")
        if s != s.strip() or s == "":
            acc.add("str:blank_edges_or_empty")
        if any(c in s for c in "\n\r\t"):
            acc.add("str:control")
        if not acc & {"str:quote", "str:backslash", "str:delims", "str:non_ascii", "str:blank_edges_or_empty", "str:control"}:
            acc.add("str:plain")
    elif t == "float":
        x = v["v"]
        if math.isnan(x) or math.isinf(x):
            acc.add("float:nonfinite")
        elif "e" in repr(x):
            acc.add("float:exponent")
        else:
            acc.add("float:plain")
    elif t == "int":
        acc.add("int:big" if abs(v["v"]) > 2 ** 63 else "int")
    elif t == "bool":
        acc.add("bool")
    elif t == "list":
        acc.add("list:nested" if any(x["t"] == "list" for x in v["items"]) else ("list:empty" if not v["items"] else "list:flat"))
        for x in v["items"]:
            classes_of(x, acc)
    elif t == "dict":
        acc.add("meta:empty" if not v["items"] else "meta")
        for k, val in v["items"]:
            classes_of({"t": "str", "v": k}, acc)
            if isinstance(val, str):
                classes_of({"t": "str", "v": val}, acc)
            else:
                acc.add("meta:number")
    elif t == "ref":
        acc.add("api:command_object" if v.get("as") == "object" else "ref")
    elif t == "dtype":
        acc.add("api:type_object" if v.get("as") == "object" else "dtype")
    return acc


HOSTILE = {"str:quote", "str:backslash", "str:delims", "str:non_ascii", "str:blank_edges_or_empty", "str:control", "float:exponent",
           "float:nonfinite", "list:nested", "api:command_object", "api:type_object", "meta", "int:big"}


# ----------------------------------------------------------------------------- building and comparing

def build(case, tmp):
    from mpilot.program import Program

    if case["build"] == "source":
        prog = {"nl": "\n", "commands": [
            {"result": c["name"], "command": c["cmd"], "args": [{"name": n, "value": abstract_value(v)} for n, v in c["args"]]}
            for c in case["commands"]]}
        text = RD.render(prog)[0]
        return Program.from_source(text, libraries=LIBS, working_dir=tmp)
    p = Program(libraries=LIBS, working_dir=tmp)
    for c in case["commands"]:
        cls = p.find_command_class(c["cmd"])
        p.add_command(cls, c["name"], {n: py_value(v, p) for n, v in c["args"]})
    return p


def plain(v):
    from mpilot.commands import Command

    if isinstance(v, Command):
        return ("@ref", v.result_name)
    if isinstance(v, type):
        return ("@type", v.__name__)
    if isinstance(v, (list, tuple)):
        return [plain(x) for x in v]
    if isinstance(v, dict):
        return {k: plain(x) for k, x in v.items()}
    return v


def cleaned_args(prog):
    """[(result, class name, [(arg name, cleaned value | ('@error', class))])]"""
    out = []
    for name, cmd in prog.commands.items():
        args = []
        for a in cmd.arguments:
            param = cmd.inputs.get(a.name)
            try:
                val = plain(param.clean(a.value, prog, a.lineno)) if param is not None else plain(a.value)
            except Exception as exc:
                val = ("@error", type(exc).__name__)
            args.append((a.name, val))
        out.append((name, type(cmd).__name__, args))
    return out


def roundtrip(prog, tmp):
    from mpilot.program import Program

    from ..history import maybe_earlier_v2_load

    text = prog.to_string()
    maybe_earlier_v2_load(text)
    return text, Program.from_source(text, libraries=LIBS, working_dir=tmp)


def compare_programs(p1, p2):
    """-> None | (kind, command name, arg name)"""
    a, b = cleaned_args(p1), cleaned_args(p2)
    if [x[0] for x in a] != [x[0] for x in b]:
        return ("result_names", None, None)
    for (n1, c1, args1), (n2, c2, args2) in zip(a, b):
        if c1 != c2:
            return ("command_class", n1, None)
        if [x[0] for x in args1] != [x[0] for x in args2]:
            return ("argument_names", n1, None)
        for (an, v1), (_, v2) in zip(args1, args2):
            if not RD.same_value(v1, v2) if not isinstance(v1, tuple) else v1 != v2:
                return ("value", n1, an)
    return None


def check_kinds(case, rec):
    tmp = tempfile.mkdtemp(prefix="vcheck-c15-")
    try:
        return _check_kinds(case, rec, tmp)
    finally:
        shutil.rmtree(tmp, ignore_errors=True)


def arg_classes(case, cname=None, aname=None):
    acc = set()
    for c in case["commands"]:
        if cname is not None and c["name"] != cname:
            continue
        for n, v in c["args"]:
            if aname is None or n == aname:
                classes_of(v, acc)
    return acc


def _check_kinds(case, rec, tmp):
    try:
        p1 = build(case, tmp)
    except Exception as exc:
        rec.exclude("case_not_buildable:%s" % type(exc).__name__)
        return []
    allc = arg_classes(case)
    for c in allc:
        rec.label(c)
    rec.label("build:" + case["build"])
    if allc & HOSTILE:
        rec.nontrivial_case(case)
        rec.label("nontrivial", sample=case if len(case["commands"]) == 1 and len(case["commands"][0]["args"]) <= 2 else None)
    fails = []
    try:
        text, p2 = roundtrip(p1, tmp)
    except Exception as exc:
        culprit = blame(case, tmp)
        return [Failure("reload_raises:%s|%s" % (type(exc).__name__, culprit), "%r\n%s" % (exc, safe_text(p1)))]
    diff = compare_programs(p1, p2)
    if diff:
        kind, cn, an = diff
        cls = "+".join(sorted(arg_classes(case, cn, an) - {"str:plain", "int", "float:plain", "bool", "ref", "dtype", "list:flat"})) or "plain"
        a1 = [x for x in cleaned_args(p1) if x[0] == cn]
        a2 = [x for x in cleaned_args(p2) if x[0] == cn]
        fails.append(Failure("%s|%s" % (kind, cls), "command %s argument %s: %r vs %r\n%s" % (cn, an, a1, a2, text)))
        return fails
    # fixed point from the second iteration, to_file
    try:
        text2, p3 = roundtrip(p2, tmp)
        d2 = compare_programs(p2, p3)  # structural fixed point (the order of metadata pairs is not part of a map)
        if d2:
            fails.append(Failure("second_iteration_differs:%s" % d2[0], "%s\n---\n%s" % (text2, p3.to_string())))
    except Exception as exc:
        fails.append(Failure("second_reload_raises:%s" % type(exc).__name__, repr(exc)))
    # to_file writes a command file that loads to the same program (its bytes need not equal to_string())
    path = os.path.join(tmp, "out.mpt")
    try:
        with open(path, "w", encoding="utf-8") as fh:
            p1.to_file(fh)
        from mpilot.program import Program

        with open(path, encoding="utf-8") as fh:
            pf = Program.from_source(fh.read(), libraries=LIBS, working_dir=tmp)
        df = compare_programs(p1, pf)
        if df:
            fails.append(Failure("to_file_differs:%s" % df[0], "the file written by to_file() loads to a different program: %r" % (df,)))
        # the same with a path instead of an open file (written and read back with the platform's default encoding)
        path2 = os.path.join(tmp, "out by path.mpt")
        p1.to_file(path2)
        with open(path2) as fh:
            pf2 = Program.from_source(fh.read(), libraries=LIBS, working_dir=tmp)
        df = compare_programs(p1, pf2)
        if df:
            fails.append(Failure("to_file_differs:%s|given_a_path" % df[0], "the file written by to_file(path) loads to a different program: %r" % (df,)))
    except Exception as exc:
        fails.append(Failure("to_file_raises:%s" % type(exc).__name__, repr(exc)))
    # identical results when run
    try:
        p1.run()
        r1 = {k: c.result for k, c in p1.commands.items()}
    except Exception as exc:
        rec.exclude("original_does_not_run:%s" % type(exc).__name__)
        return fails
    try:
        p2.run()
        r2 = {k: c.result for k, c in p2.commands.items()}
        if not RD.same_value(plain(r1), plain(r2)):
            fails.append(Failure("results_differ", "%r vs %r" % (r1, r2)))
    except Exception as exc:
        fails.append(Failure("reloaded_program_fails:%s" % type(exc).__name__, repr(exc)))
    return fails


def safe_text(p):
    try:
        return p.to_string()
    except Exception as exc:
        return "<to_string raised %r>" % exc


def blame(case, tmp):
    """Narrowest value class whose one-argument program alone fails to reload."""
    for c in case["commands"]:
        for n, v in c["args"]:
            if v["t"] == "ref":
                continue
            mini = {"build": case["build"], "commands": [{"name": "M", "cmd": c["cmd"], "args": [[n, v]]}]}
            try:
                roundtrip(build(mini, tmp), tmp)
            except Exception:
                return "+".join(sorted(classes_of(v) - {"str:plain", "list:flat"})) or "plain"
    return "combination"


# ----------------------------------------------------------------------------- runnable models

def check_model(model, rec):
    from mpilot.program import EEMS_CSV_LIBRARIES, Program

    tmp = tempfile.mkdtemp(prefix="vcheck-c15-")
    try:
        M.write_table(model, os.path.join(tmp, "input.csv"))
        from ..history import maybe_earlier_v2_load

        extra = ['WOut = EEMSWrite(OutFileName = "written.csv", OutFieldNames = [%s])' % model["nodes"][0]["name"]]
        text = M.source(model, extra_lines=extra)
        maybe_earlier_v2_load(text)
        try:
            p1 = Program.from_source(text, libraries=EEMS_CSV_LIBRARIES, working_dir=tmp)
        except Exception as exc:
            return [Failure("model_source_rejected:%s" % type(exc).__name__, "%r\n%s" % (exc, text))]
        try:
            s1 = p1.to_string()
            p2 = Program.from_source(s1, libraries=EEMS_CSV_LIBRARIES, working_dir=tmp)
        except Exception as exc:
            return [Failure("model_reload_raises:%s" % type(exc).__name__, "%r\n%s" % (exc, text))]
        rec.label("model")
        diff = compare_programs(p1, p2)
        if diff:
            return [Failure("model_%s" % diff[0], "%r\n%s\n--- serialised ---\n%s" % (diff, text, s1))]
        p3 = Program.from_source(p2.to_string(), libraries=EEMS_CSV_LIBRARIES, working_dir=tmp)
        if compare_programs(p2, p3):
            return [Failure("model_second_iteration_differs", "%s\n---\n%s" % (s1, p2.to_string()))]
        try:
            p1.run()
        except Exception as exc:
            rec.exclude("model_does_not_run:%s" % type(exc).__name__)
            return []
        try:
            p2.run()
        except Exception as exc:
            return [Failure("model_reloaded_fails:%s" % type(exc).__name__, "%r\n%s" % (exc, s1))]
        for name in p1.commands:
            a, b = p1.commands[name].result, p2.commands[name].result
            if not isinstance(a, numpy.ndarray):
                if isinstance(b, numpy.ndarray) or a != b:
                    return [Failure("model_results_differ|%s" % type(p1.commands[name]).__name__, "%s\n%s" % (name, s1))]
                continue
            if not (isinstance(b, numpy.ndarray) and U.result_equal(a, b, 0.0)):
                return [Failure("model_results_differ|%s" % type(p1.commands[name]).__name__, "%s\n%s" % (name, s1))]
        # serialising *after* the run: what is written is still the program as it was built, and runs to the same results
        try:
            s_after = p1.to_string()
            p4 = Program.from_source(s_after, libraries=EEMS_CSV_LIBRARIES, working_dir=tmp)
        except Exception as exc:
            return [Failure("model_reload_after_run_raises:%s" % type(exc).__name__, "%r\n%s" % (exc, text))]
        diff = compare_programs(p3, p4)
        if diff:
            return [Failure("model_changed_by_running:%s" % diff[0], "%r\nbefore the run:\n%s\nafter the run:\n%s" % (diff, s1, s_after))]
        try:
            p4.run()
        except Exception as exc:
            return [Failure("model_serialised_after_run_fails:%s" % type(exc).__name__, "%r\n%s" % (exc, s_after))]
        for name in p1.commands:
            a, b = p1.commands[name].result, p4.commands[name].result
            if isinstance(a, numpy.ndarray) and not (isinstance(b, numpy.ndarray) and U.result_equal(a, b, 0.0)):
                return [Failure("model_results_differ_after_run|%s" % type(p1.commands[name]).__name__, "%s\n%s" % (name, s_after))]
        rec.label("model_serialised_after_run")
        if model.get("twin"):
            # the same model description (the very same argument objects) used for two programs on two tables; the other one
            # has run already: this one's text, loaded back, is the same program and runs to the same results as this one
            from . import c02

            progs, tmps, _ = c02.twin_programs(model)
            try:
                try:
                    progs[0].run()
                    sb = progs[1].to_string()
                    progs[1].run()
                    pb = Program.from_source(sb, libraries=EEMS_CSV_LIBRARIES, working_dir=tmps[1])
                    pb.run()
                except Exception as exc:
                    rec.exclude("twin_does_not_run:%s" % type(exc).__name__)
                    return []
                rec.label("model_twin_programs_from_shared_arguments")
                diff = compare_programs(progs[1], pb)
                if diff:
                    return [Failure("model_twin_%s" % diff[0], "%r\n%s" % (diff, sb))]
                for name in pb.commands:
                    a, b = progs[1].commands[name].result, pb.commands[name].result
                    if isinstance(a, numpy.ndarray) and not (isinstance(b, numpy.ndarray) and U.result_equal(a, b, 0.0)):
                        return [Failure("model_twin_results_differ|%s" % type(pb.commands[name]).__name__,
                                        "%s: the program built from argument objects shared with a program that ran before, and its own text loaded back\n%s" % (name, sb))]
            finally:
                for t in tmps:
                    shutil.rmtree(t, ignore_errors=True)
        if any(n.get("meta") for n in model["nodes"]) or any(
                isinstance(v, float) for n in model["nodes"] for v in n.get("params", {}).values()):
            rec.nontrivial_case(model)
            rec.label("model_with_metadata_or_decimals")
    finally:
        shutil.rmtree(tmp, ignore_errors=True)
    return []


# ----------------------------------------------------------------------------- built-in readers built through the API

NC_TYPES = {"Float": "float64", "Integer": "int", "Positive Float": "float64", "Positive Integer": "uint", "Fuzzy": "float64"}
CSV_TYPES = {"Float": "float", "Integer": "int"}
DATA_FAMILIES = {
    "small_nonnegative": [0.0, 1.0, 2.0, 7.0],
    "with_negatives": [-2.0, 0.0, 3.0, -1.0],
    "fuzzy_range": [-1.0, -0.5, 0.25, 1.0],
    "fuzzy_pad": [-1.005, 0.2, 1.008, 0.0],
    "fractions": [0.4, 2.5, 7.5, 1.5],
    "far_out": [-30.0, 0.5, 12.0, 1.0],
}


def type_object(name):
    return {"float64": numpy.float64, "int": int, "uint": numpy.uint, "float": float}[name]


def reader_cases():
    for lib, types in (("netcdf", NC_TYPES), ("csv", CSV_TYPES)):
        specs = [None] + [("name", n) for n in sorted(types)] + [("object", o) for o in sorted(set(types.values()))]
        for spec in specs:
            for fam in sorted(DATA_FAMILIES):
                for missing in (None, 0, 2.5 if lib == "csv" else 2):
                    for masked in (False, True):
                        if lib == "csv" and masked:
                            continue
                        yield {"lib": lib, "dtype": spec, "data": fam, "missing": missing, "file_mask": masked, "ref": "object" if masked or missing else "name"}


def outcome_of(prog, names):
    try:
        prog.run()
    except Exception as exc:
        from .. import arr as A

        return ("error", A.exc_name(exc))
    return ("ok", [prog.commands[n].result for n in names])


def check_reader(case, rec):
    """A program that reads a file with the built-in reader, built through add_command (DataType as a name or as the
    type object itself), and the program loaded from its serialisation behave alike: both fail with the same error class
    or both give equal results."""
    from mpilot.program import EEMS_CSV_LIBRARIES, EEMS_NETCDF_LIBRARIES, Program

    tmp = tempfile.mkdtemp(prefix="vcheck-c15-")
    try:
        data = DATA_FAMILIES[case["data"]]
        if case["lib"] == "netcdf":
            from . import c18

            var = {"name": "v", "dtype": "f8", "data": data, "mask": [0, 1, 0, 0] if case["file_mask"] else None, "fill": -9999.0 if case["file_mask"] else None}
            c18.make_template(os.path.join(tmp, "in.nc"), [{"name": "x", "size": 4, "values": [0, 1, 2, 3]}], [var])
            libs, fname, mkey = EEMS_NETCDF_LIBRARIES, "in.nc", "MissingValue"
        else:
            with open(os.path.join(tmp, "in.csv"), "w") as f:
                f.write("v\n" + "\n".join(repr(x) for x in data) + "\n")
            libs, fname, mkey = EEMS_CSV_LIBRARIES, "in.csv", "MissingVal"
        p1 = Program(libraries=libs, working_dir=tmp)
        args = {"InFileName": fname, "InFieldName": "v"}
        if case["dtype"] is not None:
            how, what = case["dtype"]
            args["DataType"] = what if how == "name" else type_object(what)
        if case["missing"] is not None:
            args[mkey] = case["missing"]
        sig = "reader|%s|DataType:%s" % (case["lib"], "omitted" if case["dtype"] is None else "%s:%s" % tuple(case["dtype"]))
        rec.label("reader:%s:%s" % (case["lib"], "omitted" if case["dtype"] is None else case["dtype"][0]))
        try:
            p1.add_command(p1.find_command_class("EEMSRead"), "R", args)
            p1.add_command(p1.find_command_class("Copy"), "C", {"InFieldName": p1.commands["R"] if case["ref"] == "object" else "R"})
        except Exception as exc:
            return [Failure(sig + "|add_command_raises:%s" % type(exc).__name__, repr(exc))]
        if case["dtype"] is not None and case["dtype"][0] == "object":
            rec.nontrivial_case(case)
        try:
            text = p1.to_string()
            p2 = Program.from_source(text, libraries=libs, working_dir=tmp)
        except Exception as exc:
            return [Failure(sig + "|reload_raises:%s" % type(exc).__name__, "%r" % (exc,))]
        diff = compare_programs(p1, p2)
        if diff:
            return [Failure(sig + "|%s" % diff[0], "%r\n%s" % (diff, text))]
        o1, o2 = outcome_of(p1, ["R", "C"]), outcome_of(p2, ["R", "C"])
        rec.label("reader_outcome:" + (o1[0] if o1[0] == "ok" else o1[1]))
        if o1[0] != o2[0] or (o1[0] == "error" and o1[1] != o2[1]):
            return [Failure(sig + "|outcomes_differ", "built program: %s, loaded program: %s; data %r\n%s" % (
                o1[1] if o1[0] == "error" else "ok", o2[1] if o2[0] == "error" else "ok", data, text))]
        if o1[0] == "ok":
            for a, b, nm in zip(o1[1], o2[1], ("R", "C")):
                if not (U.result_equal(a, b, 0.0) and numpy.ma.getdata(a).dtype == numpy.ma.getdata(b).dtype):
                    return [Failure(sig + "|results_differ", "%s: built %r, loaded %r\n%s" % (nm, a, b, text))]
        return []
    finally:
        shutil.rmtree(tmp, ignore_errors=True)


# ----------------------------------------------------------------------------- strategies

HOSTILE_TEXT = st.text(alphabet=st.sampled_from(list("abXY01 _-./") + list("\"'\\#:,=()[]\n\t\r") + list("é中€😀") + ["\x0b", "\x0c", "\x1c", "\x1d", "\x1e", "\x85", "\u2028", "\u2029", "\x7f"]), max_size=10)
PLAIN_TEXT = st.text(alphabet="abcXYZ019_", min_size=1, max_size=8)


def strs():
    return st.one_of(PLAIN_TEXT, HOSTILE_TEXT, st.sampled_from(["", " x", "x ", "C:\\path\\to\\file.csv", 'say "hi"', "it's", "a#b", "\\", "\\\\", "\"", "tab\there", "Thresholds from the 2019 report.\rChecked by hand.", "cr\r\nlf", "\r", "Ünï", "line\u2028sep", "form\x0cfeed", "nel\x85", "\x1cfs"])).map(
        lambda s: {"t": "str", "v": s})


def nums():
    return st.one_of(
        st.integers(-10 ** 6, 10 ** 6).map(lambda i: {"t": "int", "v": i}),
        st.integers(-10 ** 40, 10 ** 40).map(lambda i: {"t": "int", "v": i}),
        st.floats(allow_nan=False, allow_infinity=False).map(lambda x: {"t": "float", "v": x}),
        st.sampled_from([1e-05, 1e22, 1.5e300, 5e-324, -0.0, 0.1, 123456789.125, 1e16, float("inf"), float("nan"), -1e-05, -4e16, -1e22, -5e-324, -2.5e-07, float("-inf")]).map(lambda x: {"t": "float", "v": x}),
    )


LONG_WORDS = ["Percent protected area", "mean annual temperature (degC)", "a", "road density, km per km2", "x y", "riparian buffer 30 m", "NDVI"]


@st.composite
def long_lists(draw, of_strings):
    """Lists and strings at a scale where a serialiser starts to think about line width (> 100 characters)."""
    k = draw(st.integers(8, 40))
    if of_strings:
        return {"t": "list", "items": [{"t": "str", "v": draw(st.sampled_from(LONG_WORDS)) + draw(st.sampled_from(["", " %d" % i, " " * (i % 3)]))} for i in range(k)]}
    return {"t": "list", "items": [draw(nums()) for _ in range(k)]}


@st.composite
def kinds_command(draw, name, earlier, api):
    args = []
    big = draw(st.integers(0, 7)) == 0
    chosen = draw(st.lists(st.sampled_from(["S", "Num", "Flag", "P", "T", "NumList", "StrList", "Nested", "R", "RList", "Metadata"]),
                           min_size=1, max_size=5, unique=True))
    for pn in chosen:
        if pn == "S":
            v = draw(strs())
            if big:
                v = {"t": "str", "v": " ".join(draw(st.lists(st.sampled_from(LONG_WORDS), min_size=6, max_size=20)))}
        elif pn == "Num":
            v = draw(nums())
        elif pn == "Flag":
            v = {"t": "bool", "v": draw(st.booleans())}
        elif pn == "P":
            v = draw(st.one_of(PLAIN_TEXT.map(lambda s: {"t": "str", "v": s + ".csv"}),
                               st.sampled_from(["C:\\data\\in put.csv", "/abs/path/x.csv", "sub dir/é.csv", "a\\tb.csv"]).map(lambda s: {"t": "str", "v": s})))
        elif pn == "T":
            v = {"t": "dtype", "v": draw(st.sampled_from(["Float", "Integer"])), "as": "object" if api and draw(st.booleans()) else "name"}
        elif pn == "NumList":
            v = draw(long_lists(False)) if big else {"t": "list", "items": draw(st.lists(nums(), max_size=4))}
        elif pn == "StrList":
            v = draw(long_lists(True)) if big else {"t": "list", "items": draw(st.lists(strs(), max_size=3))}
        elif pn == "Nested":
            v = {"t": "list", "items": [{"t": "list", "items": draw(st.lists(nums(), max_size=3))} for _ in range(draw(st.integers(0, 3)))]}
            if big:
                v = {"t": "list", "items": [draw(long_lists(False)) for _ in range(draw(st.integers(1, 3)))]}
        elif pn in ("R", "RList"):
            if not earlier:
                continue
            ref = lambda: {"t": "ref", "name": draw(st.sampled_from(earlier)), "as": "object" if api and draw(st.booleans()) else "name"}
            v = ref() if pn == "R" else {"t": "list", "items": [ref() for _ in range(draw(st.integers(0, 3)))]}
        else:
            # (among the keys the ones tools give a meaning to: display name, description, colour)
            keys = draw(st.lists(st.one_of(PLAIN_TEXT, st.sampled_from(["Description", "DisplayName", "Color", "ShortDescription", "description"]),
                                           HOSTILE_TEXT.filter(lambda s: s != "")), max_size=4, unique=True))
            # metadata values may be written as numbers; equal numbers of different kind (2 and 2.0, 0 and -0.0, 1 and true) side by side
            numbers = st.sampled_from([2, 2.0, 0, 0.0, -0.0, 1, 1.0, True, False, 1e-05, 10 ** 20, 2.5, -7])
            v = {"t": "dict", "items": [[k, draw(st.one_of(PLAIN_TEXT, HOSTILE_TEXT, numbers, numbers))] for k in keys]}
        args.append([pn, v])
    return {"name": name, "cmd": "Kinds", "args": args}


@st.composite
def kinds_cases(draw):
    api = draw(st.booleans())
    n = draw(st.integers(1, 3))
    cmds, earlier = [], []
    # result names that look like something else: words the grammar knows, number-like and type-like names
    odd = ["True", "False", "None", "nan", "inf", "e5", "x1e5", "_", "Float", "Integer", "Kinds", "Metadata", "true", "A.b".replace(".", "_")]
    for i in range(n):
        nm = "K%d" % i
        if draw(st.integers(0, 4)) == 0:
            nm = draw(st.sampled_from([x for x in odd if x not in earlier]))
        c = draw(kinds_command(nm, earlier, api))
        cmds.append(c)
        earlier.append(c["name"])
    return {"build": "api" if api else "source", "commands": cmds}


PARTS = {"kinds": check_kinds, "model": check_model, "reader": check_reader}


def run_shard(ctx, rec):
    drive_enum(ctx, rec, "reader", reader_cases(), check_reader, exhaustive=True)
    drive(ctx, rec, "kinds", kinds_cases(), check_kinds, ctx.n(3000, 100000), max_novel=8)
    drive(ctx, rec, "model", st.builds(lambda m, t: dict(m, twin=t), M.typed_models(max_nodes=6), st.sampled_from([False, False, True])),
          check_model, ctx.n(500, 10000))
