"""C11 -- line numbers in parse trees and errors are the true source lines."""
from __future__ import annotations

import re
import copy
import os
import shutil
import tempfile

from hypothesis import strategies as st

from ..core import Failure, drive
from ..gen import models as M
from ..gen import render as RD
from ..ref import commands as R
from . import c10

ID = "C11"
LEVEL = "fault_enumeration"
DESIGN_REF = "DESIGN.md section 3, C11"
TECHNIQUE = "Hypothesis-generated renderings with a recorded line map, generated parse histories over reused parser objects, and located single-fault injection with the CLI '-->' marker checked through click's CliRunner"
LEVEL_TEXT = (
    "(1) Generated command files with arbitrary blank lines, comment lines, trailing comments, multi-line arguments and "
    "lists, quoted strings that run over several physical lines, LF, CRLF and bare-CR line ends are parsed and every CommandNode, ArgumentNode, value and list-element line number is compared "
    "with the line recorded by the renderer; the same for Argument/ListArgument line numbers after Program.from_source. "
    "(2) Histories of parses (good and failing) on a pool of reused Parser objects must not change any line. "
    "(3) Into laid-out valid models exactly one fault with a known location is injected (unknown command, duplicate "
    "result, missing/undeclared parameter, wrong-kind value, dangling reference, fuzziness mismatch, non-data producer, "
    "missing file, relative path without working directory, invalid Direction/TruestOrFalsest/NumberToConsider/duplicate "
    "raw values); the error must carry a line inside the offending argument (or the command header), and the command-"
    "line tool must mark exactly that source line. Sampled fault positions, not exhaustive."
)
LEVEL_TEXT += ' Added later: a cycle fault (the recursion reported when the model runs is located on a command of the cycle, wherever its consumers stand); a wrong-kind producer that has finished before the run.'
LEVEL_NOTE = "Tuple-pair line numbers are not asserted (the statement lists commands, arguments and list elements)."
RULE = (
    "Cases: (lines) abstract program + layout from vcheck/gen/render.py; (history) list of steps (parser index, good or "
    "corrupted text); (fault) typed model + layout + one located fault, run through the API and, one in three, through "
    "the CLI. Oracle: recorded line map; for errors exc.lineno within [argument line, value end line] or == header "
    "line; execute-time errors None or inside the command; CLI '-->' text equals that source line. Non-trivial: a "
    "checked line that differs from 1 and from the node's ordinal (blank/comment/continuation lines precede it), or a "
    "parse on a parser that has parsed before; distinct = digest of the case."
)
ASSUMPTIONS = [
    "a command header is written on one line; a node 'starts' at its first token",
    "only the first fault in a file is located (exactly one fault is injected)",
]


def tree_line_failures(tree, lm, hist, rec):
    fails = []
    nontrivial = False

    def chk(kind, got, want, ordinal):
        nonlocal nontrivial
        if want != 1 and want != ordinal:
            nontrivial = True
        if got is None:
            fails.append(Failure("%s|none_line|%s" % (kind, hist), "expected line %d" % want))
        elif got != want:
            fails.append(Failure("%s|wrong_line|%s" % (kind, hist), "line %r, expected %d" % (got, want)))

    def val(node, key, ordinal):
        chk("value", node.lineno, lm[key], ordinal)
        if isinstance(node.value, list):
            for k, el in enumerate(node.value):
                chk("list_element", el.lineno, lm[key + (k,)], ordinal)
                if isinstance(el.value, list):
                    val(el, key + (k,), ordinal)
        elif isinstance(node.value, dict):
            rec.exclude("tuple_pair_lines_not_asserted")

    for i, c in enumerate(tree.commands):
        chk("command", c.lineno, lm[("cmd", i)], i + 1)
        for j, a in enumerate(c.arguments):
            chk("argument", a.lineno, lm[("arg", i, j)], i + 1)
            val(a.value, ("val", i, j), i + 1)
    return fails, nontrivial


def hist_class(prog, reused, after_error=False):
    h = "reused_parser" if reused else "fresh"
    if after_error:
        h += "+after_error"
    if prog.get("nl") == "\r\n":
        h += "+crlf"
    if prog.get("nl") == "\r":
        h += "+cr"
    return h


def check_lines(prog, rec):
    text, lm = RD.render(prog)
    hist = hist_class(prog, False)
    try:
        tree = c10.fresh_parser().parse(text)
    except Exception:
        rec.exclude("not_parsed (C10 owns acceptance)")
        return []
    if len(tree.commands) != len(prog["commands"]) or any(
            len(c.arguments) != len(p["args"]) for c, p in zip(tree.commands, prog["commands"])):
        rec.exclude("structure_differs (C10 owns it)")
        return []
    fails, nontrivial = tree_line_failures(tree, lm, hist, rec)
    rec.label("layout:" + ("crlf" if "crlf" in hist else "lf"))
    if nontrivial:
        rec.nontrivial_case(prog)
        rec.label("lines_nontrivial", sample={"text": text} if len(text) < 200 else None)
    return fails


def check_history(case, rec):
    from mpilot.parser.parser import Parser

    pool = {}
    dirty = {}
    fails = []
    for si, step in enumerate(case["steps"]):
        k = step["parser"]
        reused = k in pool
        if not reused:
            pool[k] = Parser()
            dirty[k] = False
        parser = pool[k]
        prog = step["prog"]
        if step["op"] == "bad":
            text = c10.corrupt(prog, step["kind"], step["pick"])
            if text is None:
                continue
            try:
                parser.parse(text)
            except Exception:
                dirty[k] = True
            rec.label("history_step:bad")
            continue
        text, lm = RD.render(prog)
        hist = hist_class(prog, reused, dirty[k])
        try:
            tree = parser.parse(text)
        except Exception as exc:
            # a good text must not start failing because of history
            try:
                Parser().parse(text)
            except Exception:
                rec.exclude("not_parsed (C10 owns acceptance)")
                continue
            fails.append(Failure("parse_fails_after_history:%s|%s" % (type(exc).__name__, hist), "step %d: %r" % (si, exc)))
            break
        rec.label("history_step:good/" + ("reused" if reused else "fresh"))
        if len(tree.commands) != len(prog["commands"]) or any(
                len(c.arguments) != len(p["args"]) for c, p in zip(tree.commands, prog["commands"])):
            continue
        fs, _ = tree_line_failures(tree, lm, hist, rec)
        if fs:
            fs[0].detail = "step %d: %s" % (si, fs[0].detail)
            fails.extend(fs[:1])
            break
        if reused:
            rec.nontrivial_case(case)
            rec.label("reparse_on_used_parser", sample={"steps": [(s["parser"], s["op"]) for s in case["steps"]]}
                      if len(case["steps"]) <= 4 else None)
    return fails


# ---------------------------------------------------------------------------------- located faults

def num_value(x):
    if isinstance(x, bool):
        return {"k": "str", "v": "true" if x else "false", "q": "none"}
    if isinstance(x, int):
        return {"k": "int", "text": repr(x)}
    return {"k": "float", "text": M.fmt_number(x)}


def to_value(v, ref=False):
    if isinstance(v, (list, tuple)):
        return {"k": "list", "items": [to_value(x, ref) for x in v], "trail": False}
    if isinstance(v, str):
        return {"k": "str", "v": v, "q": "none" if ref else "double"}
    return num_value(v)


def model_to_abstract(model, csv_name="input.csv"):
    """Abstract program (canonical layout) of a typed model, commands in the model's textual order."""
    from .. import arr as A

    cmds = []
    for i in model["order"]:
        node = model["nodes"][i]
        args = []
        if node["cmd"] == "EEMSRead":
            spec = model["cols"][node["col"]]
            args.append({"name": "InFileName", "value": to_value(csv_name)})
            args.append({"name": "InFieldName", "value": to_value(node["col"])})
            missing = node["read_missing"] if node.get("own_missing") else spec.get("missing")
            if missing is not None:
                args.append({"name": "MissingVal", "value": num_value(missing)})
            args.append({"name": "DataType", "value": to_value("Integer" if spec["dtype"] == "int64" else "Float")})
        else:
            pn = A.INPUT_PARAM[node["cmd"]]
            if node["cmd"] in R.NARY:
                args.append({"name": pn[0], "value": to_value(node["inputs"], ref=True)})
            else:
                for p, r in zip(pn, node["inputs"]):
                    args.append({"name": p, "value": to_value(r, ref=True)})
            for k, v in node["params"].items():
                args.append({"name": k, "value": to_value(v)})
        cmds.append({"result": node["name"], "command": node["cmd"], "args": M.permute_args(args, node.get("arg_perm"))})
    return {"nl": "\n", "commands": cmds}


@st.composite
def lay_out(draw, prog):
    """Draw a layout (gaps, line ends) for an abstract program."""
    prog = copy.deepcopy(prog)

    def lay_value(v):
        if v["k"] == "list":
            n = len(v["items"])
            v["g"] = [draw(RD.gaps(3)) for _ in range(n + 1)]
            v["ig"] = [draw(RD.inline_gap()) for _ in range(n)]
            v["trail"] = bool(n) and draw(st.booleans())
            for x in v["items"]:
                lay_value(x)

    for c in prog["commands"]:
        c["g"] = [draw(RD.inline_gap()), draw(RD.inline_gap()), draw(RD.gaps(1)), draw(RD.gaps(5))]
        c["trail_comma"] = draw(st.booleans())
        c["after"] = draw(RD.gaps(10))
        for a in c["args"]:
            a["g"] = [draw(RD.gaps(6)), draw(RD.gaps(1)), draw(RD.gaps(1)), draw(RD.gaps(2))]
            lay_value(a["value"])
    prog["nl"] = draw(st.sampled_from(["\n", "\n", "\n", "\r\n", "\r\n", "\r"]))
    if draw(st.integers(0, 5)) == 0:
        prog["nl_mix"] = draw(st.lists(st.sampled_from(["\n", "\r", "\r\n"]), min_size=2, max_size=5))
    prog["head"] = draw(RD.gaps(4))
    prog["tail"] = draw(RD.gaps(3))
    return prog


FAULTS = ["mismatched_weights", "bad_csv_cell", "unknown_command", "duplicate_result", "missing_required", "undeclared_param", "wrong_kind_number",
          "wrong_kind_list", "dangling_ref", "fuzzy_mismatch", "non_data_producer", "missing_file", "relative_path",
          "invalid_direction", "invalid_truest", "invalid_number_to_consider", "duplicate_raw_values", "cycle"]

NUMBER_PARAMS = {"TrueThreshold", "FalseThreshold", "Threshold", "StartVal", "EndVal", "DefaultNormalValue",
                 "DefaultFuzzyValue", "TrueThresholdZScore", "FalseThresholdZScore", "NumberToConsider", "MissingVal"}
LIST_PARAMS = {"Weights", "RawValues", "NormalValues", "FuzzyValues", "ZScoreValues", "InFieldNames"}
REQUIRED = {
    "EEMSRead": ["InFileName", "InFieldName"],
}


def inject(model, prog, fault, pick):
    """Mutates prog (abstract, canonical); returns (expected error class names, location, working_dir_flag) or None.

    location = ("cmd", i) or ("arg", i, j) in prog coordinates."""
    cmds = prog["commands"]
    node_of = {n["name"]: n for n in model["nodes"]}

    def choose(cands):
        return cands[pick % len(cands)] if cands else None

    if fault == "unknown_command":
        i = pick % len(cmds)
        cmds[i]["command"] = "NoSuchCommand"
        return ["CommandDoesNotExist"], ("cmd", i), True
    if fault == "duplicate_result":
        if len(cmds) < 2:
            return None
        i = 1 + pick % (len(cmds) - 1)
        cmds[i]["result"] = cmds[(pick // 7) % i]["result"]
        return ["DuplicateResult"], ("cmd", i), True
    if fault == "missing_required":
        cands = []
        for i, c in enumerate(cmds):
            for j, a in enumerate(c["args"]):
                if a["name"] in ("InFieldName", "InFieldNames", "A", "B", "InFileName", "Weights", "RawValues", "Threshold",
                                 "IgnoreZeros", "TruestOrFalsest", "NumberToConsider") and not (
                        c["command"] != "CvtToBinary" and a["name"] == "Direction"):
                    cands.append((i, j))
        t = choose(cands)
        if not t:
            return None
        i, j = t
        del cmds[i]["args"][j]
        return ["MissingParameters"], ("cmd", i), True
    if fault == "undeclared_param":
        i = pick % len(cmds)
        j = (pick // 5) % (len(cmds[i]["args"]) + 1)
        cmds[i]["args"].insert(j, {"name": "Bogus", "value": {"k": "int", "text": "1"}})
        return ["NoSuchParameter"], ("arg", i, j), True
    if fault in ("wrong_kind_number", "wrong_kind_list"):
        names = NUMBER_PARAMS if fault == "wrong_kind_number" else LIST_PARAMS
        cands = [(i, j) for i, c in enumerate(cmds) for j, a in enumerate(c["args"]) if a["name"] in names]
        t = choose(cands)
        if not t:
            return None
        i, j = t
        cmds[i]["args"][j]["value"] = ({"k": "str", "v": "notanumber", "q": "double"} if fault == "wrong_kind_number"
                                       else {"k": "int", "text": "7"})
        return ["ParameterNotValid"], ("arg", i, j), True
    if fault in ("dangling_ref", "fuzzy_mismatch", "non_data_producer"):
        cands = [(i, j) for i, c in enumerate(cmds) for j, a in enumerate(c["args"])
                 if a["name"] in ("InFieldName", "A", "B", "InFieldNames") and c["command"] != "EEMSRead"]
        t = choose(cands)
        if not t:
            return None
        i, j = t
        arg = cmds[i]["args"][j]
        if fault == "dangling_ref":
            new, classes = "Nowhere", ["ResultDoesNotExist"]
        elif fault == "non_data_producer":
            first_src = [n["name"] for n in model["nodes"] if n["cmd"] == "EEMSRead"][0]
            cmds.append({"result": "PV", "command": "PrintVars", "args": [
                {"name": "InFieldNames", "value": to_value([first_src], ref=True)},
                {"name": "OutFileName", "value": to_value("pv.txt")}]})
            new, classes = "PV", ["ResultTypeNotValid"]
        else:
            want_fuzzy = cmds[i]["command"] in R.FUZZY_INPUT
            if cmds[i]["command"] == "Copy":
                return None
            others = [n["name"] for n in model["nodes"] if (n["cmd"] in R.FUZZY) != want_fuzzy and n["name"] != cmds[i]["result"]]
            if not others:
                return None
            new = others[pick % len(others)]
            classes = ["ResultNotFuzzy"] if want_fuzzy else ["ResultIsFuzzy"]
        if arg["value"]["k"] == "list":
            if not arg["value"]["items"]:
                return None
            arg["value"]["items"][pick % len(arg["value"]["items"])] = to_value(new, ref=True)
        else:
            arg["value"] = to_value(new, ref=True)
        return classes, ("arg", i, j), True
    if fault == "cycle":
        # one reference is redirected to the command itself or to one of its consumers: the recursion reported when
        # the model is run is located on a command of that cycle, wherever its (innocent) consumers stand in the file
        ref_args = ("InFieldName", "A", "B", "InFieldNames")

        def refs(c):
            out = []
            for a in c["args"]:
                if a["name"] in ref_args and c["command"] != "EEMSRead":
                    v = a["value"]
                    out.extend([x["v"] for x in v["items"]] if v["k"] == "list" else [v["v"]])
            return out

        cands = [(i, j) for i, c in enumerate(cmds) for j, a in enumerate(c["args"])
                 if a["name"] in ref_args and c["command"] != "EEMSRead" and (a["value"]["k"] != "list" or a["value"]["items"])]
        t = choose(cands)
        if not t:
            return None
        i, j = t
        index = {c["result"]: k for k, c in enumerate(cmds)}

        def reach(a):
            seen, todo = set(), [a]
            while todo:
                k = todo.pop()
                for r in refs(cmds[k]):
                    if r in index and index[r] not in seen:
                        seen.add(index[r])
                        todo.append(index[r])
            return seen

        consumers = [k for k in range(len(cmds)) if i in reach(k) and cmds[k]["command"] != "EEMSRead"]
        same_kind = [k for k in consumers if (cmds[k]["command"] in R.FUZZY) == (cmds[i]["command"] in R.FUZZY)]
        target = (same_kind or consumers or [i])[(pick // 7) % len(same_kind or consumers or [i])] if pick % 3 else i
        arg = cmds[i]["args"][j]
        if arg["value"]["k"] == "list":
            arg["value"]["items"][pick % len(arg["value"]["items"])] = to_value(cmds[target]["result"], ref=True)
        else:
            arg["value"] = to_value(cmds[target]["result"], ref=True)
        members = sorted(k for k in range(len(cmds)) if k in reach(k))
        return ["RecursiveModelStructure"], ("cycle", i, members), True
    if fault in ("missing_file", "relative_path"):
        cands = [(i, j) for i, c in enumerate(cmds) for j, a in enumerate(c["args"]) if a["name"] == "InFileName"]
        i, j = choose(cands)
        if fault == "missing_file":
            cmds[i]["args"][j]["value"] = to_value("no_such_file.csv")
            return ["PathDoesNotExist"], ("arg", i, j), True
        i, j = cands[0]  # every read has a relative path: the first one in the text is the offender
        return ["InvalidRelativePath"], ("arg", i, j), False
    if fault in ("mismatched_weights", "bad_csv_cell"):
        # execute-time errors of a command that is reached through a consumer: the error must carry no line or a line of
        # the offending command itself -- never the consumer's
        if fault == "mismatched_weights":
            cands = [(i, j) for i, c in enumerate(cmds) for j, a in enumerate(c["args"]) if a["name"] == "Weights"]
            t = choose(cands)
            if not t:
                return None
            i, j = t
            cmds[i]["args"][j]["value"]["items"].append({"k": "int", "text": "1"})
            classes = ["MismatchedWeights"]
        else:
            cands = [(i, 0) for i, c in enumerate(cmds) if c["command"] == "EEMSRead"]
            i, j = choose(cands)
            classes = ["InvalidDataFile"]
        target = cmds[i]["result"]
        fuzzy = cmds[i]["command"] in R.FUZZY
        consumer = {"result": "Consumer", "command": "FuzzyNot" if fuzzy else "Copy", "args": [{"name": "InFieldName", "value": to_value(target, ref=True)}]}
        cmds.insert(pick % (len(cmds) + 1), consumer)
        i = [k for k, c in enumerate(cmds) if c["result"] == target][0]
        return classes, ("exec", i, j), True
    if fault in ("invalid_direction", "invalid_truest", "invalid_number_to_consider", "duplicate_raw_values"):
        pname, classes = {
            "invalid_direction": ("Direction", ["InvalidDirection"]),
            "invalid_truest": ("TruestOrFalsest", ["InvalidTruestOrFalsest"]),
            "invalid_number_to_consider": ("NumberToConsider", ["InvalidNumberToConsider"]),
            "duplicate_raw_values": ("RawValues", ["DuplicateRawValues"]),
        }[fault]
        cands = [(i, j) for i, c in enumerate(cmds) for j, a in enumerate(c["args"]) if a["name"] == pname
                 and not (fault == "duplicate_raw_values" and len(a["value"].get("items", [])) < 1)]
        t = choose(cands)
        if not t:
            return None
        i, j = t
        if fault == "invalid_direction":
            cmds[i]["args"][j]["value"] = to_value("Sideways")
        elif fault == "invalid_truest":
            cmds[i]["args"][j]["value"] = to_value("Middle")
        elif fault == "invalid_number_to_consider":
            cmds[i]["args"][j]["value"] = {"k": "int", "text": "9"}
        else:
            v = cmds[i]["args"][j]["value"]
            v["items"].append(copy.deepcopy(v["items"][0]))
            for a in cmds[i]["args"]:
                if a["name"] in ("NormalValues", "FuzzyValues"):
                    a["value"]["items"].append(copy.deepcopy(a["value"]["items"][0]) if a["value"]["items"] else {"k": "int", "text": "0"})
        return classes, ("exec", i, j), True
    raise ValueError(fault)


def program_line_failures(p, prog, lm, hist, rec):
    """Argument / ListArgument line numbers of the loaded Program against the renderer's line map."""
    from mpilot.arguments import ListArgument

    fails = []
    by_name = {c["result"]: i for i, c in enumerate(prog["commands"])}
    for rname, cmd in p.commands.items():
        i = by_name.get(rname)
        if i is None:
            continue
        if cmd.lineno != lm[("cmd", i)]:
            fails.append(Failure("program_command|wrong_line|%s" % hist, "command %s: line %r, expected %d" % (rname, cmd.lineno, lm[("cmd", i)])))
        names = [a["name"] for a in prog["commands"][i]["args"]]
        for arg in cmd.arguments:
            if arg.name not in names:
                continue
            j = names.index(arg.name)
            rec.label("program_argument_lines_checked")
            if isinstance(arg, ListArgument):
                want = lm[("val", i, j)]
                if arg.lineno != want:
                    fails.append(Failure("program_list_argument|wrong_line|%s" % hist, "%s.%s: line %r, the list starts on line %d" % (rname, arg.name, arg.lineno, want)))
                wants = [lm[("val", i, j, k)] for k in range(len(arg.value))]
                if list(arg.list_linenos or []) != wants:
                    fails.append(Failure("program_list_element|wrong_line|%s" % hist, "%s.%s: element lines %r, expected %r" % (rname, arg.name, arg.list_linenos, wants)))
            elif arg.lineno != lm[("arg", i, j)]:
                fails.append(Failure("program_argument|wrong_line|%s" % hist, "%s.%s: line %r, the argument starts on line %d" % (
                    rname, arg.name, arg.lineno, lm[("arg", i, j)])))
        if len(fails) > 3:
            break
    return fails[:3]


def check_fault(case, rec):
    from mpilot.exceptions import MPilotError
    from mpilot.program import Program

    prog = case["prog"]
    text, lm = RD.render(prog)
    classes, loc, use_wd = case["classes"], tuple(case["loc"]), case["working_dir"]
    src_lines = re.split(r"\r\n|\r|\n", text)
    cycle_lines = None
    if loc[0] == "cycle":
        cycle_lines = sorted(lm[("cmd", k)] for k in loc[2])
        span = (cycle_lines[0], cycle_lines[-1])
    elif loc[0] == "cmd":
        span = (lm[("cmd", loc[1])], lm[("cmd", loc[1])])
    else:
        span = (lm[("arg", loc[1], loc[2])], lm[("val", loc[1], loc[2], "end")])
    cmd_span = (lm[("cmd", loc[1])], lm[("cmdend", loc[1])])
    hist = "crlf" if prog.get("nl") == "\r\n" else "lf"
    tmp = tempfile.mkdtemp(prefix="vcheck-c11-")
    fails = []
    try:
        M.write_table(case["model"], os.path.join(tmp, "input.csv"))
        if case["fault"] == "bad_csv_cell":
            col = [a["value"]["v"] for a in prog["commands"][loc[1]]["args"] if a["name"] == "InFieldName"][0]
            with open(os.path.join(tmp, "input.csv")) as f:
                rows = [l.rstrip("\n").split(",") for l in f]
            k = rows[0].index(col)
            rows[1 + len(rows) // 3][k] = "not_a_number"
            with open(os.path.join(tmp, "input.csv"), "w") as f:
                f.write("\n".join(",".join(r) for r in rows) + "\n")
        try:
            p = Program.from_source(text, working_dir=tmp if use_wd else None)
            fails.extend(program_line_failures(p, prog, lm, hist, rec))
            if case["fault"] == "non_data_producer" and case.get("pre_read"):
                # the producer of the wrong kind has been looked at (and so has run) before the model is run: the error
                # about its consumer's argument is still located on that argument
                try:
                    p.commands["PV"].result
                    classes = classes + ["ParameterNotValid"]
                    rec.label("producer_finished_before_run")
                except Exception:
                    pass
            p.run()
            rec.exclude("fault_not_rejected:%s (C12 owns acceptance)" % case["fault"])
            return []
        except MPilotError as exc:
            err = exc
        except Exception as exc:
            rec.exclude("non_mpilot_error:%s (C13 owns it)" % type(exc).__name__)
            return []
        if type(err).__name__ not in classes:
            rec.exclude("other_error_first:%s" % case["fault"])
            return []
        line = getattr(err, "lineno", None)
        rec.label("fault:" + case["fault"])
        kind = type(err).__name__
        if loc[0] == "cycle":
            rec.label("cycle:%s" % ("consumer_first" if any(lm[("cmd", k)] < cycle_lines[0] for k in range(len(prog["commands"]))
                                                          if prog["commands"][k]["command"] != "EEMSRead") else "cycle_first"))
            if line is not None and line not in cycle_lines:
                fails.append(Failure("%s|wrong_line:not_on_the_cycle|%s" % (kind, hist),
                                     "line %r; the commands of the cycle start on lines %r\n%s" % (line, cycle_lines, text)))
        elif loc[0] == "exec":
            if line is not None and not (cmd_span[0] <= line <= cmd_span[1]):
                fails.append(Failure("%s|wrong_line|%s" % (kind, hist), "line %r outside the command span %r\n%s" % (line, cmd_span, text)))
            elif line is not None and case["fault"] in ("invalid_direction", "invalid_truest", "invalid_number_to_consider", "duplicate_raw_values"):
                # the value of one particular argument is at fault: the line is the command's own or lies inside that
                # argument, not inside a neighbouring one
                arg_span = (lm[("arg", loc[1], loc[2])], lm[("val", loc[1], loc[2], "end")])
                if line != cmd_span[0] and not (arg_span[0] <= line <= arg_span[1]):
                    fails.append(Failure("%s|wrong_line:another_argument|%s" % (kind, hist),
                                         "line %r; the command starts on line %d, the offending argument spans %r\n%s" % (line, cmd_span[0], arg_span, text)))
        elif line is None:
            fails.append(Failure("%s|none_line|%s" % (kind, hist), "no line; expected %r\n%s" % (span, text)))
        elif not (span[0] <= line <= span[1]):
            fails.append(Failure("%s|wrong_line|%s" % (kind, hist), "line %r, expected within %r\n%s" % (line, span, text)))
        elif loc[0] == "arg" and line != span[0] and prog["commands"][loc[1]]["args"][loc[2]]["value"]["k"] != "list":
            # an argument with a scalar value starts on the line of its name: that is the line its errors carry
            fails.append(Failure("%s|wrong_line:value_line_of_scalar_argument|%s" % (kind, hist),
                                 "line %r, the offending argument starts on line %d\n%s" % (line, span[0], text)))
        if span[0] not in (1, loc[1] + 1):
            rec.nontrivial_case(case)
            rec.label("fault_nontrivial", sample={"fault": case["fault"], "text": text, "expected_lines": span} if len(text) < 500 else None)

        # the command-line tool marks that line
        if case.get("cli") and use_wd and line is not None and not fails:
            from click.testing import CliRunner
            from mpilot.cli.mpilot import main

            path = os.path.join(tmp, "model.mpt")
            with open(path, "w", newline="") as f:
                f.write(text)
            res = CliRunner().invoke(main, ["eems-csv", path])
            rec.label("cli_runs")
            try:
                stderr = res.stderr
            except Exception:
                stderr = res.output
            marked = [l[4:] for l in stderr.split("\n") if l.startswith("--> ")]
            want_span = cmd_span if loc[0] == "exec" else span
            ok_lines = [src_lines[k - 1] for k in (cycle_lines or range(want_span[0], want_span[1] + 1))]
            if res.exit_code == 0:
                fails.append(Failure("%s|cli_exit_zero|%s" % (kind, hist), stderr[:300]))
            elif not marked:
                fails.append(Failure("%s|cli_marker_missing|%s" % (kind, hist), "stderr: %r exception: %r" % (stderr[-400:], res.exception)))
            elif marked[0] not in ok_lines:
                fails.append(Failure("%s|cli_marker|%s" % (kind, hist), "marked %r, expected one of %r" % (marked[0], ok_lines)))
    finally:
        shutil.rmtree(tmp, ignore_errors=True)
    return fails


@st.composite
def fault_cases(draw):
    fault = draw(st.sampled_from(FAULTS + ["cycle", "cycle", "non_data_producer"]))
    pools = {
        "invalid_direction": ["CvtToBinary", "CvtToFuzzy", "Sum"],
        "invalid_truest": ["CvtToFuzzy", "FuzzySelectedUnion", "CvtToBinary"],
        "invalid_number_to_consider": ["CvtToFuzzy", "FuzzySelectedUnion", "CvtToBinary"],
        "duplicate_raw_values": ["NormalizeCat", "NormalizeCurve", "CvtToFuzzyCat", "CvtToFuzzyCurve", "Mean"],
        "fuzzy_mismatch": ["CvtToFuzzy", "FuzzyOr", "FuzzyNot", "Sum", "AMinusB", "CvtFromFuzzy", "CvtToBinary"],
        "mismatched_weights": ["WeightedSum", "WeightedMean", "CvtToFuzzy", "FuzzyWeightedUnion"],
    }
    model = draw(M.typed_models(max_nodes=6, with_meta=False, cmds=pools.get(fault), clean=True))
    prog = model_to_abstract(model)
    got = inject(model, prog, fault, draw(st.integers(0, 200)))
    if got is None:
        fault = draw(st.sampled_from(["unknown_command", "undeclared_param", "dangling_ref", "missing_file"]))
        prog = model_to_abstract(model)
        got = inject(model, prog, fault, draw(st.integers(0, 200)))
        if got is None:
            fault = "unknown_command"
            prog = model_to_abstract(model)
            got = inject(model, prog, fault, 0)
    classes, loc, use_wd = got
    prog = draw(lay_out(prog))
    return {"model": model, "prog": prog, "fault": fault, "classes": classes, "loc": list(loc), "working_dir": use_wd,
            "cli": draw(st.integers(0, 2)) == 0, "pre_read": draw(st.booleans())}


@st.composite
def history_cases(draw):
    n = draw(st.sampled_from([2, 2, 3, 4, 6]))
    steps = []
    safe = RD.any_value(("id", "plain1", "id_plain"))
    for _ in range(n):
        op = draw(st.sampled_from(["parse", "parse", "parse", "bad"]))
        step = {"parser": draw(st.integers(0, 1)), "op": op, "prog": draw(RD.programs(safe, max_commands=3))}
        if op == "bad":
            step["kind"] = draw(st.sampled_from(c10.CORRUPTIONS))
            step["pick"] = draw(st.integers(0, 30))
        steps.append(step)
    return {"steps": steps}


PARTS = {"lines": check_lines, "history": check_history, "fault": check_fault}


def run_shard(ctx, rec):
    safe = RD.any_value(("id", "plain1", "id_plain"))
    drive(ctx, rec, "lines", RD.programs(safe), check_lines, ctx.n(2500, 30000))
    drive(ctx, rec, "history", history_cases(), check_history, ctx.n(600, 5000))
    drive(ctx, rec, "fault", fault_cases(), check_fault, ctx.n(1600, 20000))
