"""C19 -- command lookup depends only on the libraries requested."""
from __future__ import annotations

import importlib
import json
import os
import shutil
import subprocess
import sys
import tempfile

from hypothesis import strategies as st

from ..core import sstr, Failure, drive

ID = "C19"
LEVEL = "exploration"
DESIGN_REF = "DESIGN.md section 3, C19"
TECHNIQUE = "model-based stateful testing: a Hypothesis RuleBasedStateMachine and Hypothesis-generated operation lists over Program constructions, class definitions and imports on generated library packages, compared with a names->module model and a fresh-process differential"
LEVEL_TEXT = (
    "Small library packages with prefix-related names (lib, lib_extra, libx, lib.sub, other) and clashing command names "
    "are generated on disk; histories of up to 10 steps construct Programs for arbitrary subsets and orders of them and "
    "of the built-in CSV/NetCDF sets, define Command subclasses in unrelated or prefix-related modules, and import "
    "libraries normally. After every construction the mapping command name -> defining module must equal the model "
    "computed from the requested libraries alone (modules equal to a requested name or below it), and requesting "
    "libraries that define the same name must fail with MPilotError. The registry and sys.modules are restored after "
    "each history. A sample of constructions is cross-checked against a fresh interpreter process. Sampled histories."
    ' The empty library selection is part of the requests.'
)
LEVEL_TEXT += ' Added later: libraries keeping their commands in modules of various names (cmds, _cmds, _impl_v2, __main__, _).'
LEVEL_NOTE = "Classes that claim a __module__ equal to or below a generated library are not generated (that is membership of the library by Python's own notion)."
RULE = (
    "Cases: {libs: {package: [command names]}, steps: construct(libs...) | define(module, name) | import(lib)}. "
    "Oracle: model expected(libs) = commands of modules m with m == lib or m startswith lib + '.', clash => MPilotError; "
    "fresh-process differential on a sample. Non-trivial: a construction preceded by another construction, definition or "
    "import involving a prefix-related or clashing library; distinct = digest of the history."
)
ASSUMPTIONS = ["library packages keep their commands in sub-modules (as the built-in libraries and the repo's tests do)"]

BUILTIN = {
    "mpilot.libraries.eems.basic": ["Copy", "AMinusB", "Sum", "WeightedSum", "Multiply", "ADividedByB", "Minimum", "Maximum",
                                    "Mean", "WeightedMean", "Normalize", "NormalizeZScore", "NormalizeCat", "NormalizeCurve",
                                    "NormalizeMeanToMid", "NormalizeCurveZScore", "PrintVars"],
    "mpilot.libraries.eems.fuzzy": ["CvtToFuzzy", "CvtToFuzzyZScore", "CvtToFuzzyCat", "CvtToFuzzyCurve",
                                    "CvtToFuzzyMeanToMid", "CvtToFuzzyCurveZScore", "CvtToBinary", "FuzzyUnion",
                                    "FuzzyWeightedUnion", "FuzzySelectedUnion", "FuzzyOr", "FuzzyAnd", "FuzzyXOr", "FuzzyNot",
                                    "CvtFromFuzzy"],
    "mpilot.libraries.eems.csv": ["EEMSRead", "EEMSWrite"],
    "mpilot.libraries.eems.netcdf": ["EEMSRead", "EEMSWrite"],
}
BUILTIN_MODULE = {
    "mpilot.libraries.eems.basic": "mpilot.libraries.eems.basic",
    "mpilot.libraries.eems.fuzzy": "mpilot.libraries.eems.fuzzy",
    "mpilot.libraries.eems.csv": "mpilot.libraries.eems.csv.io",
    "mpilot.libraries.eems.netcdf": "mpilot.libraries.eems.netcdf.io",
}
GEN_LIBS = ["lib", "lib_extra", "libx", "lib.sub", "lib_sub", "libxsub", "other", "li", "pk", "pk.inner", "pk.inner.deep"]
# these packages define their commands in their own __init__ module: asking for one of their sub-packages does not ask for them
INIT_LIBS = ("pk", "pk.inner")
# the module (inside the package) that holds a library's commands: any module of a requested package counts, whatever it is called
MODULE_OF = {"libx": "_cmds", "other": "_impl_v2", "lib_sub": "__main__", "pk.inner.deep": "_"}
CMD_NAMES = ["Foo", "Bar", "Baz", "Qux"]


def module_name(lib):
    return lib if lib in INIT_LIBS else lib + "." + MODULE_OF.get(lib, "cmds")

ELSEWHERE = ["elsewhere", "lib_other", "libz", "l", "tests_helpers", "mpilot.libraries.eems.basic_extra"]


def write_libs(root, libs):
    for lib, names in libs.items():
        d = os.path.join(root, *lib.split("."))
        os.makedirs(d, exist_ok=True)
        # every package on the path needs an __init__
        parts = lib.split(".")
        for k in range(1, len(parts) + 1):
            init = os.path.join(root, *parts[:k], "__init__.py")
            if not os.path.exists(init):
                open(init, "w").close()
        # a library whose name is written with a leading "@" in the case keeps its commands in the package's own
        # __init__ module instead of a sub-module (the key used everywhere else is the plain name)
        with open(os.path.join(d, "__init__.py" if lib in INIT_LIBS else MODULE_OF.get(lib, "cmds") + ".py"), "w") as f:
            f.write("from mpilot.commands import Command\nfrom mpilot import params\n\n")
            for k, n in enumerate(names):
                # every second command is registered under an explicit `name` that differs from its class name
                cls_name, extra = (n, "") if k % 2 == 0 else (n + "Command", "    name = %r\n" % n)
                f.write("class %s(Command):\n%s    inputs = {}\n    output = params.Parameter()\n\n"
                        "    def execute(self, **kwargs):\n        return %r\n\n" % (cls_name, extra, lib + "." + n))


def module_commands(libs):
    """module name -> command names, for generated and built-in libraries."""
    out = {}
    for lib, names in libs.items():
        out[module_name(lib)] = list(names)
    for lib, names in BUILTIN.items():
        out[BUILTIN_MODULE[lib]] = list(names)
    return out


def expected(libs, requested):
    mods = module_commands(libs)
    table = {}
    dup = set()
    for m, names in mods.items():
        if any(m == r or m.startswith(r + ".") for r in requested):
            for n in names:
                if n in table and table[n] != m:
                    dup.add(n)
                table[n] = m
    return table, dup


def observed(requested):
    from mpilot.exceptions import MPilotError
    from mpilot.program import Program

    try:
        prog = Program(libraries=tuple(requested))
    except MPilotError as exc:
        return "error", sstr(exc)
    return "ok", {n: c.__module__ for n, c in prog.command_library.items()}


FRESH = r"""
import json, sys
sys.path.insert(0, sys.argv[1])
from mpilot.program import Program
from mpilot.exceptions import MPilotError
try:
    p = Program(libraries=tuple(json.loads(sys.argv[2])))
    print(json.dumps(["ok", {n: c.__module__ for n, c in p.command_library.items()}]))
except MPilotError as e:
    print(json.dumps(["error", str(e)]))
"""


_BASELINE = {"done": False}


def baseline():
    """Import every built-in library once, so that the registry snapshot restored after each history is a state
    a real process can be in (modules imported <=> their commands registered)."""
    if not _BASELINE["done"]:
        from mpilot.program import EEMS_CSV_LIBRARIES, EEMS_NETCDF_LIBRARIES, Program

        Program(libraries=EEMS_CSV_LIBRARIES)
        Program(libraries=EEMS_NETCDF_LIBRARIES)
        _BASELINE["done"] = True


class Runner(object):
    """Interprets one history step by step against the model (used by the operation-list check and by the
    Hypothesis state machine alike)."""

    def __init__(self, libs):
        from mpilot.commands import CommandMeta

        baseline()
        self.libs = libs
        self.root = tempfile.mkdtemp(prefix="vcheck-c19-")
        self.snap = set(CommandMeta._commands)
        self.mods_before = set(sys.modules)
        sys.path.insert(0, self.root)
        importlib.invalidate_caches()
        self.earlier = []
        self.closed = False
        write_libs(self.root, libs)

    def close(self):
        from mpilot.commands import CommandMeta

        if self.closed:
            return
        self.closed = True
        if self.root in sys.path:
            sys.path.remove(self.root)
        for m in set(sys.modules) - self.mods_before:
            if m.split(".")[0] in set(l.split(".")[0] for l in GEN_LIBS):
                del sys.modules[m]
        CommandMeta._commands.clear()
        CommandMeta._commands.update(self.snap)
        importlib.invalidate_caches()
        shutil.rmtree(self.root, ignore_errors=True)

    def step(self, step, rec, case=None):
        from mpilot.commands import Command

        libs, earlier = self.libs, self.earlier
        op = step[0]
        if op == "define":
            _, module, cname = step
            try:
                type(str(cname), (Command,), {"__module__": module, "inputs": {}, "execute": lambda self, **kw: None})
            except Exception as exc:
                return [Failure("define_raises:%s" % type(exc).__name__, repr(exc))]
            earlier.append("define:" + module)
            return []
        if op == "import":
            importlib.import_module(module_name(step[1]))
            earlier.append("import:" + step[1])
            return []
        requested = step[1]  # may be empty: a program that asks for no library has no commands at all
        table, dup = expected(libs, requested)
        if not requested:
            rec.label("construct:no_library_requested")
        status, got = observed(requested)
        related = [e for e in earlier if any(
            e.split(":", 1)[1].startswith(r) or r.startswith(e.split(":", 1)[1]) for r in requested)]
        hist = "prefix_or_clash_history" if related else ("some_history" if earlier else "first")
        rec.label("construct:" + hist)
        if related and case is not None:
            rec.nontrivial_case(case)
            rec.label("nontrivial", sample=case if len(case["steps"]) <= 3 else None)
        if dup:
            rec.label("clash_expected")
            if status != "error":
                return [Failure("clash_not_reported|%s" % hist, "requested %r: %r are defined twice; history %r" % (requested, sorted(dup), earlier))]
        elif status == "error":
            return [Failure("spurious_error|%s" % hist, "requested %r after %r: %s" % (requested, earlier, got[:200]))]
        elif got != table:
            extra = {k: v for k, v in got.items() if table.get(k) != v}
            missing = {k: v for k, v in table.items() if k not in got}
            kind = "foreign_commands" if extra else "missing_commands"
            return [Failure("%s|%s" % (kind, hist), "requested %r after %r: unexpected %r, missing %r" % (
                requested, earlier, extra, missing))]
        if requested and not dup and status == "ok" and all(r in libs for r in requested) and len(earlier) % 3 == 0:
            # the command-line tool: its built-in set plus the same libraries through -l offers the same commands
            from click.testing import CliRunner
            from mpilot.cli.mpilot import main

            cname = sorted(table)[len(earlier) % len(table)]
            path = os.path.join(self.root, "cli_model.mpt")
            with open(path, "w") as f:
                f.write("R = %s()\n" % cname)
            for which in ("eems-csv", "eems-netcdf"):
                args = [which, path]
                for r in requested:
                    args += ["-l", r]
                res = CliRunner().invoke(main, args)
                rec.label("cli_with_libraries:" + which)
                if res.exception is not None and not isinstance(res.exception, SystemExit):
                    return [Failure("cli_traceback:%s|%s" % (type(res.exception).__name__, which), repr(res.exception))]
                if res.exit_code != 0:
                    try:
                        stderr = res.stderr
                    except Exception:
                        stderr = res.output
                    return [Failure("cli_missing_commands|%s" % which, "mpilot %s: exit %s, %r" % (" ".join(args[:1] + args[2:]), res.exit_code, stderr[-200:]))]
        if step[0] == "construct_fresh":
            out = subprocess.run([sys.executable, "-c", FRESH, self.root, json.dumps(requested)], capture_output=True,
                                 text=True, env=dict(os.environ), timeout=120)
            rec.label("fresh_process_differential")
            try:
                fstatus, fgot = json.loads(out.stdout.strip().splitlines()[-1])
            except Exception:
                return [Failure("fresh_process_failed", out.stderr[-300:])]
            if fstatus != status or (status == "ok" and fgot != got):
                return [Failure("differs_from_fresh_process|%s" % hist, "requested %r after %r" % (requested, earlier))]
        earlier.append("construct:" + ",".join(requested))
        return []


def check_history(case, rec):
    runner = Runner(case["libs"])
    try:
        for step in case["steps"]:
            fails = runner.step(step, rec, case)
            if fails:
                return fails
    finally:
        runner.close()
    return []


def run_state_machine(ctx, rec, n_examples):
    """The same model as a Hypothesis rule-based state machine: rules are the step kinds, the model check runs
    inside every rule, the whole rule sequence shrinks as one value; the trace of the final (minimal) failing run is
    saved as an ordinary history case, so it replays through check_history without Hypothesis."""
    import copy

    from hypothesis import HealthCheck, seed as hseed, settings
    from hypothesis.stateful import RuleBasedStateMachine, initialize, rule, run_state_machine_as_test

    from ..core import _Violation

    tag = "history/state_machine"
    session = set()
    remaining = n_examples
    rnd = 0
    while remaining > 0 and len(session) < 3:
        holder = {"last": None, "runs": 0}

        class Registry(RuleBasedStateMachine):
            def __init__(self):
                super(Registry, self).__init__()
                self.runner = None
                self.trace = None

            @initialize(chosen=st.lists(st.sampled_from(GEN_LIBS), min_size=2, max_size=5, unique=True), data=st.data())
            def setup(self, chosen, data):
                if "lib.sub" in chosen and "lib" not in chosen:
                    chosen = chosen + ["lib"]
                libs = {l: data.draw(st.lists(st.sampled_from(CMD_NAMES), min_size=1, max_size=3, unique=True)) for l in chosen}
                self.runner = Runner(libs)
                self.trace = {"libs": libs, "steps": []}
                holder["runs"] += 1
                rec.evaluated()

            def _do(self, step):
                self.trace["steps"].append(step)
                fails = self.runner.step(step, rec, self.trace)
                novel = [f for f in fails if f.signature not in session and not rec.is_known(f)]
                if novel:
                    holder["last"] = (copy.deepcopy(self.trace), novel[0])
                    raise _Violation(novel[0].signature)

            @rule(picks=st.lists(st.integers(0, 50), min_size=0, max_size=4, unique=True), builtin=st.booleans())
            def construct(self, picks, builtin):
                pool = list(self.runner.libs) + (list(BUILTIN) if builtin else [])
                req = []
                for k in picks:
                    if pool[k % len(pool)] not in req:
                        req.append(pool[k % len(pool)])
                self._do(["construct", req])

            @rule(module=st.sampled_from(ELSEWHERE), cname=st.sampled_from(CMD_NAMES + ["Sum", "EEMSRead", "Other"]))
            def define_class_elsewhere(self, module, cname):
                self._do(["define", module, cname])

            @rule(k=st.integers(0, 50))
            def import_library_normally(self, k):
                names = list(self.runner.libs)
                self._do(["import", names[k % len(names)]])

            def teardown(self):
                if self.runner is not None:
                    self.runner.close()

        machine = hseed(ctx.hseed(tag, rnd))(Registry)
        try:
            run_state_machine_as_test(machine, settings=settings(
                max_examples=remaining, stateful_step_count=10, database=None, deadline=None,
                suppress_health_check=list(HealthCheck), report_multiple_bugs=False, print_blob=False))
            rec.parts[tag] += holder["runs"]
            remaining = 0
        except _Violation:
            trace, failure = holder["last"]
            session.add(failure.signature)
            rec.add_failure(failure, trace, "history")
            rec.parts[tag] += holder["runs"]
            remaining -= max(1, min(holder["runs"], remaining // 2))
            rnd += 1


@st.composite
def histories(draw):
    chosen = draw(st.lists(st.sampled_from(GEN_LIBS), min_size=2, max_size=5, unique=True))
    if "lib.sub" in chosen and "lib" not in chosen:
        chosen.append("lib")
    libs = {l: draw(st.lists(st.sampled_from(CMD_NAMES), min_size=1, max_size=3, unique=True)) for l in chosen}
    all_libs = list(libs) + list(BUILTIN)
    n = draw(st.sampled_from([1, 2, 3, 4, 6, 8, 10]))
    steps = []
    for _ in range(n):
        kind = draw(st.sampled_from(["construct"] * 5 + ["define", "define", "import", "construct_fresh"]))
        if kind in ("construct", "construct_fresh"):
            if kind == "construct_fresh" and draw(st.integers(0, 9)) > 0:
                kind = "construct"
            req = draw(st.lists(st.sampled_from(all_libs if draw(st.booleans()) else list(libs)), min_size=0 if draw(st.integers(0, 5)) == 0 else 1, max_size=4, unique=True))
            steps.append([kind, req])
        elif kind == "define":
            steps.append(["define", draw(st.sampled_from(ELSEWHERE)), draw(st.sampled_from(CMD_NAMES + ["Sum", "EEMSRead", "Other"]))])
        else:
            steps.append(["import", draw(st.sampled_from(list(libs)))])
    if not any(s[0].startswith("construct") for s in steps):
        steps.append(["construct", [draw(st.sampled_from(list(libs)))]])
    return {"libs": libs, "steps": steps}


PARTS = {"history": check_history}


def run_shard(ctx, rec):
    drive(ctx, rec, "history", histories(), check_history, ctx.n(2400, 60000))
    run_state_machine(ctx, rec, ctx.n(800, 20000))
