"""C20 -- parameter cleaning is typed, pure and idempotent."""
from __future__ import annotations

import itertools
import math
import os
import re
import shutil
import tempfile

import numpy
from hypothesis import strategies as st

from .. import vlog
from ..core import peek, sstr, Failure, drive, drive_enum

ID = "C20"
LEVEL = "exploration"
DESIGN_REF = "DESIGN.md section 3, C20"
TECHNIQUE = "exhaustive parameter-configuration x raw-value matrix + Hypothesis-generated raw values against a reference cleaner, with idempotence, determinism and purity relations"
LEVEL_TEXT = (
    "Every parameter class and configuration (paths that must / need not exist, result parameters with each output "
    "type and fuzziness, lists of each item type including nested lists, both data-type tables) is applied to a pool of "
    "about 70 raw values of every kind the parser or the API delivers (ints, big ints, floats, NaN, bools, numeric / "
    "boolean / arbitrary strings, lists, nested lists, Argument/ListArgument items, dicts, finished and unfinished "
    "commands, types, existing/missing, relative/absolute paths), with and without a working directory; Hypothesis adds "
    "generated strings, numbers and nestings. Each outcome must be the value predicted by an independent reference "
    "cleaner or one of the seven parameter errors; a second clean of the same raw value must give an equal value, "
    "cleaning the cleaned value must return it unchanged, the raw argument must be structurally unchanged, and the "
    "program (commands, library, is_finished of referenced commands, execution log) must be untouched. The matrix is "
    "enumerated completely; generated values are sampled."
    " A lookalikes part cleans values that compare equal but differ in kind or sign (0, 0.0, -0.0, False, '0') one after the other; numpy scalars, non-finite texts, odd digit characters and relative paths through ./, ../ and dot-files are in the pool; an error raised by clean(..., lineno) must not carry another line."
)
LEVEL_TEXT += ' Added later: arrays compared with everything observable (cells, mask, types, hardmask, fill value, writeable flag), hardened / read-only / plain arrays as raw values; a returned container edited by the caller, then the raw value cleaned again with the same and another parameter object.'
LEVEL_NOTE = "Cells the docs leave open (numeric strings with blanks or exponents, bool given for a number, non-string given for a String) are only checked by the relations, not against an expected value."
RULE = (
    "Cases: (parameter spec, raw value spec, working directory or none). Enumerated: the full matrix; generated: random "
    "specs with generated raws. Oracle: reference cleaner (value or error class) where the docs decide, otherwise type "
    "predicate; clean(v)==clean(v); clean(clean(v))==clean(v); raw unchanged; program unchanged and nothing executed. "
    "Non-trivial: the raw value is accepted and differs from its cleaned form, or is a container; distinct = digest "
    "of the case."
)
ASSUMPTIONS = [
    "raw values are of the kinds listed in the property (no numpy arrays or None as raw arguments, except arrays for DataParameter)",
    "idempotence for paths is checked under an absolute working directory only",
]

PARAM_ERRORS = ("ParameterNotValid", "PathDoesNotExist", "InvalidRelativePath", "ResultDoesNotExist",
                "ResultTypeNotValid", "ResultNotFuzzy", "ResultIsFuzzy")
UNSPEC = ("unspecified",)


# ---------------------------------------------------------------------------- environment

class Env(object):
    def __init__(self, with_wd):
        from mpilot.commands import Command
        from mpilot.program import EEMS_CSV_LIBRARIES, Program

        self.tmp = tempfile.mkdtemp(prefix="vcheck-c20-")
        os.makedirs(os.path.join(self.tmp, "data"))
        for rel in (os.path.join("data", "x.csv"), ".hidden.csv", os.path.join("data", "with space é.csv")):
            with open(os.path.join(self.tmp, rel), "w") as f:
                f.write("a\n1\n")
        # with_wd: True (absolute directory), False (None) or "empty" (the empty string, which is what the command-line
        # tool passes for a command file named without a directory: relative paths are then relative to the cwd)
        # "relative": a working directory given relative to the current directory (which is then the scratch directory)
        self.wd = "" if with_wd == "empty" else "wdir" if with_wd == "relative" else (self.tmp if with_wd else None)
        for base in (os.path.join(self.tmp, "wdir"), os.path.join(self.tmp, "wdir", "wdir")):
            os.makedirs(os.path.join(base, "data"))
            with open(os.path.join(base, "data", "x.csv"), "w") as f:
                f.write("a\n1\n")
        self.prog = Program(libraries=tuple(EEMS_CSV_LIBRARIES) + ("vlib_verif",), working_dir=self.wd)
        lib = self.prog.command_library

        def stub(name, result, fuzzy=False):
            c = Command(name)
            if fuzzy:
                c.is_fuzzy = True
            c.is_finished = True
            c._result = result
            self.prog.commands[name] = c

        stub("PData", numpy.ma.array([1.0, 2.0]))
        stub("PFuzzy", numpy.ma.array([0.5, -1.0, 0.25], mask=[0, 0, 1], hard_mask=True), fuzzy=True)  # (its owner hardened the mask)
        stub("PNum", 5)
        stub("PPath", os.path.join("data", "x.csv"))  # a finished command (belonging to no program) whose result is a relative path
        self.prog.add_command(lib["Src"], "USrc", {"V": 1})
        self.prog.add_command(lib["NoOut"], "UNoOut", {"V": 2})
        self.prog.add_command(lib["EEMSRead"], "URead", {"InFileName": os.path.join(self.tmp, "nope.csv"), "InFieldName": "a"})
        self.prog.add_command(lib["CvtToFuzzy"], "UFz", {"InFieldName": "URead"})
        self.prog.add_command(lib["PrintVars"], "UPrint", {"InFieldNames": ["URead"]})
        for k, c in enumerate(self.prog.commands.values()):
            c.lineno = 20 + k  # as if loaded from a file: every command has a line of its own, none of them 7
        self.meta = {
            "PData": {"finished": True, "fuzzy": False, "result": "array", "out": None},
            "PFuzzy": {"finished": True, "fuzzy": True, "result": "array", "out": None},
            "PNum": {"finished": True, "fuzzy": False, "result": "number", "out": None},
            "PPath": {"finished": True, "fuzzy": False, "result": "path", "out": None},
            "USrc": {"finished": False, "fuzzy": False, "out": "Parameter"},
            "UNoOut": {"finished": False, "fuzzy": False, "out": None},
            "URead": {"finished": False, "fuzzy": False, "out": "Data"},
            "UFz": {"finished": False, "fuzzy": True, "out": "Data"},
            "UPrint": {"finished": False, "fuzzy": False, "out": "Boolean"},
        }

    def close(self):
        shutil.rmtree(self.tmp, ignore_errors=True)

    def state(self):
        return (
            tuple((k, id(v), v.is_finished, id(peek(v)), array_print(peek(v)) if isinstance(peek(v), numpy.ndarray) else None)
                  for k, v in self.prog.commands.items()),
            tuple(sorted((k, id(v)) for k, v in self.prog.command_library.items())),
            self.prog.working_dir,
        )


def make_param(spec):
    from mpilot import params as P

    c = spec["c"]
    kw = {"required": spec.get("required", True)}
    if c == "Parameter":
        return P.Parameter(**kw)
    if c == "String":
        return P.StringParameter(**kw)
    if c == "Number":
        return P.NumberParameter(**kw)
    if c == "Boolean":
        return P.BooleanParameter(**kw)
    if c == "Path":
        return P.PathParameter(must_exist=spec["must_exist"], **kw)
    if c == "Result":
        out = make_param({"c": spec["out"], "of": {"c": "Parameter"}, "must_exist": False}) if spec.get("out") else None
        return P.ResultParameter(out, is_fuzzy=spec.get("fuzzy"), **kw)
    if c == "List":
        return P.ListParameter(make_param(spec["of"]), **kw)
    if c == "Tuple":
        return P.TupleParameter(**kw)
    if c == "Data":
        return P.DataParameter(**kw)
    if c == "DataType":
        if spec.get("table") == "netcdf":
            return P.DataTypeParameter(valid_types=dict(NETCDF_TABLE), **kw)
        return P.DataTypeParameter(**kw)
    raise ValueError(c)


CSV_TABLE = {"Float": float, "Integer": int}
NETCDF_TABLE = {"Float": numpy.float64, "Integer": int, "Positive Float": numpy.float64, "Positive Integer": numpy.uint,
                "Fuzzy": numpy.float64}
TYPES = {"float": float, "int": int, "numpy.float64": numpy.float64, "numpy.uint": numpy.uint, "str": str}


def make_raw(spec, env, nested=False):
    """Raw value as Command.validate_params hands it to clean(): the top level of a parsed list is a plain list whose
    nested lists are ListArgument objects."""
    from mpilot.arguments import Argument, ListArgument

    t = spec["t"]
    if t in ("int", "float", "str"):
        return spec["v"]
    if t == "bool":
        return bool(spec["v"])
    if t == "npnum":
        return numpy.dtype(spec["dtype"]).type(spec["v"])
    if t == "list":
        return [make_raw(x, env, True) for x in spec["items"]]
    if t == "listarg":
        items = [make_raw(x, env, True) for x in spec["items"]]
        if not nested:
            return items
        return ListArgument("P", items, lineno=3, list_linenos=[3] * len(items))
    if t == "argitems":
        return [Argument("P", make_raw(x, env, True), 3) for x in spec["items"]]
    if t == "dict":
        return {make_raw(k, env, True): make_raw(v, env, True) for k, v in spec["items"]}
    if t == "cmd":
        return env.prog.commands[spec["name"]]
    if t == "type":
        return TYPES[spec["name"]]
    if t == "array":
        if spec.get("kind") == "hard_mask":
            return numpy.ma.array([1.0, 2.0, 3.0], mask=[0, 1, 0], hard_mask=True)
        if spec.get("kind") == "read_only":
            a = numpy.ma.array([1.0, 2.0], mask=[0, 1])
            a.data.flags.writeable = False
            return a
        if spec.get("kind") == "plain":
            return numpy.array([[1, 2], [3, 4]])
        return numpy.ma.array([1.0, 2.0])
    if t == "path":
        base = {"abs_existing": os.path.join(env.tmp, "data", "x.csv"), "abs_missing": os.path.join(env.tmp, "data", "missing.csv"),
                "rel_existing": os.path.join("data", "x.csv"), "rel_missing": os.path.join("data", "missing.csv"),
                # relative paths that do not start with a name: through the parent directory, with a leading "./", a dot-file;
                # "parent_shadow" does not exist although a file of the same name sits below the working directory
                "parent_existing": os.path.join("..", os.path.basename(env.tmp), "data", "x.csv"),
                "parent_shadow": os.path.join("..", "data", "x.csv"),
                "dotslash_existing": os.path.join(".", "data", "x.csv"), "dotfile_existing": ".hidden.csv",
                "spaces_existing": os.path.join("data", "with space é.csv"),
                # a relative path that begins with the very name of a relative working directory
                "named_like_wd": os.path.join("wdir", "data", "x.csv")}
        return base[spec["kind"]]
    raise ValueError(t)


# ---------------------------------------------------------------------------- reference cleaner

INT_RE = re.compile(r"[+-]?\d+\Z")
DEC_RE = re.compile(r"[+-]?(\d+\.\d*|\.\d+)\Z")


class Err(Exception):
    def __init__(self, name):
        Exception.__init__(self, name)
        self.name = name


class Unspecified(Exception):
    pass


def unwrap(raw):
    from mpilot.arguments import Argument

    return raw.value if isinstance(raw, Argument) else raw


def ref_clean(pspec, raw, env):
    """Expected cleaned value; raises Err(name) or Unspecified."""
    from mpilot.commands import Command

    c = pspec["c"]
    if c == "Parameter":
        return raw
    if isinstance(raw, numpy.generic):
        # numpy scalars reach clean() through the programming interface: they are numbers (kept as they are, a decimal
        # stays a decimal); what the other parameter types make of them is not documented
        if c == "Number" and not isinstance(raw, numpy.bool_):
            return raw
        raise Unspecified()
    if c == "String":
        if isinstance(raw, str):
            return raw
        raise Unspecified()
    if c == "Number":
        if isinstance(raw, bool):
            raise Unspecified()
        if isinstance(raw, (int, float)):
            return raw
        if isinstance(raw, str):
            if INT_RE.match(raw):
                return int(raw)
            if DEC_RE.match(raw):
                return float(raw)
            if not any(ch.isdigit() for ch in raw) and raw.strip().lower().lstrip("+-") not in ("nan", "inf", "infinity"):
                raise Err("ParameterNotValid")
            raise Unspecified()
        raise Err("ParameterNotValid")
    if c == "Boolean":
        if isinstance(raw, bool):
            return raw
        if isinstance(raw, int):
            if raw in (0, 1):
                return bool(raw)
            raise Unspecified()
        if isinstance(raw, str):
            if raw.lower() in ("true", "false"):
                return raw.lower() == "true"
            if raw in ("0", "1"):
                return raw == "1"
            if INT_RE.match(raw) or raw.strip() != raw or (raw.strip().lstrip("+-").replace("_", "").isdigit()):
                raise Unspecified()
            try:
                int(raw)
                raise Unspecified()
            except ValueError:
                raise Err("ParameterNotValid")
        raise Err("ParameterNotValid")
    if c == "Path":
        if not isinstance(raw, str):
            raise Err("ParameterNotValid")
        if raw == "":
            raise Unspecified()
        path = raw
        if not os.path.isabs(path):
            if env.wd is None:
                raise Err("InvalidRelativePath")
            path = os.path.join(env.wd, path)
        if pspec["must_exist"] and not os.path.exists(path):
            raise Err("PathDoesNotExist")
        return path
    if c == "DataType":
        table = NETCDF_TABLE if pspec.get("table") == "netcdf" else CSV_TABLE
        if isinstance(raw, type):
            if any(raw is v for v in table.values()):
                return raw
            if any(raw == v for v in table.values()):
                raise Unspecified()
            raise Err("ParameterNotValid")
        if isinstance(raw, str):
            if raw in table:
                return table[raw]
            raise Err("ParameterNotValid")
        raise Err("ParameterNotValid")
    if c == "Tuple":
        if isinstance(raw, dict):
            return {str(k): str(v) for k, v in raw.items()}
        if isinstance(raw, list) and raw == []:
            return {}
        raise Err("ParameterNotValid")
    if c == "Data":
        if isinstance(raw, numpy.ndarray):
            return raw
        raise Err("ParameterNotValid")
    if c == "List":
        if not isinstance(raw, (list, tuple)):
            raise Err("ParameterNotValid")
        # items are cleaned in order: once an item's outcome is unspecified, so is everything after it
        return [ref_clean(pspec["of"], unwrap(item), env) for item in raw]
    if c == "Result":
        cmd = raw
        if isinstance(raw, str):
            if raw not in env.prog.commands:
                raise Err("ResultDoesNotExist")
            cmd = env.prog.commands[raw]
        if not isinstance(cmd, Command):
            raise Err("ParameterNotValid")
        meta = env.meta[cmd.result_name]
        if pspec.get("fuzzy") is True and not meta["fuzzy"]:
            raise Err("ResultNotFuzzy")
        if pspec.get("fuzzy") is False and meta["fuzzy"]:
            raise Err("ResultIsFuzzy")
        out = pspec.get("out")
        if out is None:
            return cmd
        if meta["finished"]:
            ref_clean({"c": out, "of": {"c": "Parameter"}, "must_exist": False}, peek(cmd), env)  # may raise
            return cmd
        declared = meta["out"]
        if declared is None:
            return cmd
        if out == "String":
            ok = declared in ("String", "Number", "Path", "DataType")
        elif out == "Number":
            ok = declared == "Number"
        elif out == "Parameter":
            ok = True
        else:
            ok = declared == out
        if not ok:
            raise Err("ResultTypeNotValid")
        return cmd
    raise ValueError(c)


# ---------------------------------------------------------------------------- comparison helpers

def array_print(a):
    """Everything a caller can observe about an array: cells, missing cells, types, and the flags that decide how it
    behaves when it is assigned to later (a hardened mask, read-only data)."""
    masked = isinstance(a, numpy.ma.MaskedArray)
    return (type(a).__name__, a.shape, str(a.dtype), numpy.ma.getdata(a).tobytes(), numpy.ma.getmaskarray(a).tobytes(),
            bool(a.hardmask) if masked else None, repr(a.fill_value) if masked else None, bool(numpy.ma.getdata(a).flags.writeable))


def same(a, b):
    from mpilot.arguments import Argument
    from mpilot.commands import Command

    if isinstance(a, Argument) or isinstance(b, Argument):
        return raw_same(a, b)
    if isinstance(a, Command) or isinstance(b, Command) or isinstance(a, type) or isinstance(b, type):
        return a is b
    if isinstance(a, numpy.ndarray) or isinstance(b, numpy.ndarray):
        return isinstance(a, numpy.ndarray) and isinstance(b, numpy.ndarray) and array_print(a) == array_print(b)
    if isinstance(a, bool) or isinstance(b, bool):
        return type(a) is type(b) and a == b
    if isinstance(a, numpy.generic) or isinstance(b, numpy.generic):
        # a numpy scalar and the Python number of the same kind and value are the same number
        kind = lambda x: "i" if isinstance(x, (int, numpy.integer)) else "f" if isinstance(x, (float, numpy.floating)) else None
        return kind(a) is not None and kind(a) == kind(b) and bool(a == b or (a != a and b != b))
    if isinstance(a, (int, float)) and isinstance(b, (int, float)):
        if type(a) is not type(b):
            return False
        if isinstance(a, float) and a == b:
            return math.copysign(1.0, a) == math.copysign(1.0, b)  # -0.0 is not 0.0
        return a == b or (a != a and b != b)
    if isinstance(a, (list, tuple)) and isinstance(b, (list, tuple)):
        return len(a) == len(b) and all(same(x, y) for x, y in zip(a, b))
    if isinstance(a, dict) and isinstance(b, dict):
        return list(a.keys()) == list(b.keys()) and all(same(a[k], b[k]) for k in a)
    return type(a) is type(b) and a == b


def raw_same(a, b):
    """Structural identity of two raw values (Argument wrappers included)."""
    from mpilot.arguments import Argument, ListArgument

    if isinstance(a, Argument) or isinstance(b, Argument):
        if type(a) is not type(b):
            return False
        if a.name != b.name or a.lineno != b.lineno:
            return False
        if isinstance(a, ListArgument) and a.list_linenos != b.list_linenos:
            return False
        return raw_same(a.value, b.value)
    if isinstance(a, list) and isinstance(b, list):
        return len(a) == len(b) and all(raw_same(x, y) for x, y in zip(a, b))
    return same(a, b)


def do_clean(param, raw, env):
    from mpilot.exceptions import MPilotError

    try:
        return "value", param.clean(raw, env.prog, 7)
    except MPilotError as exc:
        return "error", exc
    except Exception as exc:
        return "raises", exc


def raw_kind(spec):
    t = spec["t"]
    if t == "str":
        v = spec["v"]
        if INT_RE.match(v) or DEC_RE.match(v):
            return "str:numeric"
        if v.lower() in ("true", "false"):
            return "str:boolean"
        return "str:other"
    if t in ("list", "listarg", "argitems"):
        return t + (":nested" if any(x["t"] in ("list", "listarg") for x in spec["items"]) else "")
    if t == "cmd":
        return "cmd:" + spec["name"]
    if t == "path":
        return "path:" + spec["kind"]
    return t


def param_kind(p):
    c = p["c"]
    if c == "List":
        return "List[%s]" % param_kind(p["of"])
    if c == "Result":
        return "Result[%s,%s]" % (p.get("out"), {None: "any", True: "fuzzy", False: "nonfuzzy"}[p.get("fuzzy")])
    if c == "Path":
        return "Path[%s]" % ("must_exist" if p["must_exist"] else "any")
    if c == "DataType":
        return "DataType[%s]" % p.get("table", "csv")
    return c


def check_case(case, rec):
    env = Env(case["wd"])
    cwd = os.getcwd()
    try:
        if case["wd"] in ("empty", "relative"):
            os.chdir(env.tmp)
        return _check(case, rec, env)
    finally:
        os.chdir(cwd)
        env.close()


def _check(case, rec, env):
    pspec, rspec = case["param"], case["raw"]
    param = make_param(pspec)
    raw = make_raw(rspec, env)
    pristine = make_raw(rspec, env)
    before = env.state()
    vlog.reset()
    sig = "%s|%s|%s" % (param_kind(pspec), raw_kind(rspec), "emptywd" if case["wd"] == "empty" else "relwd" if case["wd"] == "relative" else ("wd" if case["wd"] else "nowd"))
    fails = []
    k1, v1 = do_clean(param, raw, env)
    rec.label("param:" + pspec["c"])
    if k1 == "raises":
        return [Failure("%s|raises:%s" % (sig, type(v1).__name__), repr(v1)[:300])]
    if k1 == "error" and type(v1).__name__ not in PARAM_ERRORS:
        fails.append(Failure("%s|error_class:%s" % (sig, type(v1).__name__), sstr(v1)[:200]))
    if k1 == "error" and getattr(v1, "lineno", None) not in (None, 7):
        # clean() was told the line of the argument it is cleaning (7): an error it raises is about that argument
        fails.append(Failure("%s|error_line:%s" % (sig, type(v1).__name__), "clean(..., lineno=7) raised an error carrying line %r" % (v1.lineno,)))
    if k1 == "error":
        try:
            str(v1)
        except Exception as exc:
            fails.append(Failure("%s|str(error)_raises:%s" % (sig, type(exc).__name__), repr(exc)))
    # reference
    try:
        want = ("value", ref_clean(pspec, pristine, env))
    except Err as e:
        want = ("error", e.name)
    except Unspecified:
        want = UNSPEC
        rec.exclude("expected_value_unspecified")
    if want != UNSPEC:
        if want[0] == "error":
            if k1 != "error" or type(v1).__name__ != want[1]:
                got = type(v1).__name__ if k1 == "error" else "value %r" % (v1,)
                fails.append(Failure("%s|expected:%s|got:%s" % (sig, want[1], type(v1).__name__ if k1 == "error" else "value"),
                                     "expected %s, got %s" % (want[1], got)))
        else:
            if k1 != "value":
                fails.append(Failure("%s|expected:value|got:%s" % (sig, type(v1).__name__), "expected %r, got %s: %s" % (want[1], type(v1).__name__, sstr(v1)[:150])))
            elif not same(v1, want[1]):
                fails.append(Failure("%s|wrong_value" % sig, "expected %r (%s), got %r (%s)" % (want[1], type(want[1]).__name__, v1, type(v1).__name__)))
    # purity
    if not raw_same(raw, pristine):
        fails.append(Failure("%s|raw_mutated" % sig, "raw argument changed by clean()"))
    if env.state() != before:
        fails.append(Failure("%s|program_mutated" % sig, "program state changed by clean()"))
    if vlog.LOG:
        fails.append(Failure("%s|executed_during_clean" % sig, repr(vlog.LOG)))
    # determinism and idempotence
    k2, v2 = do_clean(param, raw, env)
    if k2 != k1 or (k1 == "value" and not same(v1, v2)) or (k1 == "error" and type(v1) is not type(v2)):
        fails.append(Failure("%s|not_deterministic" % sig, "first %r, second %r" % ((k1, v1), (k2, v2))))
    if k1 == "value" and ("Path" not in param_kind(pspec) or case["wd"] is True):
        k3, v3 = do_clean(param, v1, env)
        if k3 != "value" or not same(v3, v1):
            fails.append(Failure("%s|not_idempotent" % sig, "clean(v)=%r, clean(clean(v))=%r" % (v1, v3 if k3 == "value" else (k3, type(v3).__name__))))
        container = rspec["t"] in ("list", "listarg", "argitems", "dict")
        if container or not same(v1, unwrap(pristine)):
            rec.nontrivial_case(case)
            rec.label("accepted_and_changed_or_container", sample=case if rspec["t"] not in ("list", "listarg", "argitems") else None)
    if k1 == "value" and isinstance(v1, (dict, list)) and v1 is not raw and want != UNSPEC and want[0] == "value":
        # the cleaned value belongs to the caller, who may go on working with it (add a key, append an item): cleaning the
        # same raw value afterwards -- with this parameter object or another one of the same configuration -- still gives
        # the value the raw argument stands for
        try:
            if isinstance(v1, dict):
                v1["added by the caller"] = "x"
            else:
                v1.append("added by the caller")
            for p_ in (param, make_param(pspec)):
                k4, v4 = do_clean(p_, make_raw(rspec, env), env)
                if k4 != "value" or not same(v4, want[1]):
                    fails.append(Failure("%s|cleaned_value_shared_between_calls" % sig, "after the caller changed the value returned first, "
                                         "cleaning the raw value again gives %r, expected %r" % (v4 if k4 == "value" else type(v4).__name__, want[1])))
                    break
            rec.label("returned_container_edited_then_recleaned")
        except Exception as exc:
            fails.append(Failure("%s|reclean_raises:%s" % (sig, type(exc).__name__), repr(exc)))
    if vlog.LOG or env.state() != before:
        fails.append(Failure("%s|program_mutated_by_reclean" % sig, "state changed by repeated clean()"))
    rec.label("outcome:" + (k1 if k1 == "value" else type(v1).__name__))
    return fails


# ---------------------------------------------------------------------------- the matrix

def S(v):
    return {"t": "str", "v": v}


def I(v):
    return {"t": "int", "v": v}


def Fl(v):
    return {"t": "float", "v": v}


def NP(dtype, v):
    return {"t": "npnum", "dtype": dtype, "v": v}


def L(*items):
    return {"t": "list", "items": list(items)}


RAW_POOL = [
    I(0), I(1), I(-3), I(12), I(10 ** 30), Fl(1.5), Fl(-0.0), Fl(1e-05), Fl(1e22), Fl(float("nan")), Fl(float("inf")),
    {"t": "bool", "v": 1}, {"t": "bool", "v": 0},
    NP("float32", 0.5), NP("float32", 1.5), NP("float16", -0.75), NP("float64", 2.5), NP("int64", 3), NP("int32", 0), NP("float32", 2.0),
    S("12"), S("-7"), S("+3"), S("1.5"), S(".5"), S("2."), S("abc"), S(""), S("true"), S("False"), S("TRUE"), S("0"), S("1"),
    S("2"), S(" 7 "), S("-1"), S("+-1"), S("--1"), S("\u00b2"), S("\u2460"), S("1\u00b2"), S("\u0663"), S("1_0"), S("1e5"), S("nan"), S("inf"), S("1e999"), S("-Infinity"), S("Float"), S("Integer"), S("Positive Float"), S("Fuzzy"), S("float"),
    S("PData"), S("PFuzzy"), S("PNum"), S("PPath"), S("USrc"), S("UNoOut"), S("URead"), S("UFz"), S("UPrint"), S("Missing"), S("café"),
    {"t": "path", "kind": "abs_existing"}, {"t": "path", "kind": "abs_missing"}, {"t": "path", "kind": "rel_existing"},
    {"t": "path", "kind": "rel_missing"}, {"t": "path", "kind": "parent_existing"}, {"t": "path", "kind": "parent_shadow"},
    {"t": "path", "kind": "dotslash_existing"}, {"t": "path", "kind": "dotfile_existing"}, {"t": "path", "kind": "spaces_existing"}, {"t": "path", "kind": "named_like_wd"},
    L(), L(I(1), I(2)), L(Fl(2.5), Fl(0.5)), L(I(3), I(1), I(2)), L(S("b"), S("a")), L(L(I(2), I(1)), L(I(0))), L(Fl(0.5), S("2")), L(S("a"), S("b")), L(S("true"), I(0)), L(L(I(1)), L(I(2), Fl(3.5))), L(L()),
    L(S("PData"), S("UFz")), L(S("PData"), S("Missing")), L(L(S("PData")), L(S("PFuzzy"), S("URead"))),
    {"t": "listarg", "items": [I(1), S("2")]}, {"t": "listarg", "items": [{"t": "listarg", "items": [I(1)]}, {"t": "listarg", "items": []}]},
    {"t": "argitems", "items": [I(1), Fl(2.5)]}, {"t": "argitems", "items": [S("PData")]},
    {"t": "dict", "items": []}, {"t": "dict", "items": [[S("a"), S("b")]]}, {"t": "dict", "items": [[I(1), Fl(2.5)], [S("k"), I(3)]]},
    {"t": "cmd", "name": "PData"}, {"t": "cmd", "name": "PFuzzy"}, {"t": "cmd", "name": "PNum"}, {"t": "cmd", "name": "PPath"}, {"t": "cmd", "name": "USrc"},
    {"t": "cmd", "name": "URead"}, {"t": "cmd", "name": "UFz"}, {"t": "cmd", "name": "UPrint"}, {"t": "cmd", "name": "UNoOut"},
    L({"t": "cmd", "name": "PData"}, {"t": "cmd", "name": "UFz"}), L(S("UNoOut"), S("USrc")),
    {"t": "type", "name": "float"}, {"t": "type", "name": "int"}, {"t": "type", "name": "numpy.float64"},
    {"t": "type", "name": "numpy.uint"}, {"t": "type", "name": "str"},
]


def param_specs():
    out = [{"c": "Parameter"}, {"c": "String"}, {"c": "Number"}, {"c": "Boolean"}, {"c": "Tuple"}, {"c": "Data"},
           {"c": "Path", "must_exist": True}, {"c": "Path", "must_exist": False},
           {"c": "DataType", "table": "csv"}, {"c": "DataType", "table": "netcdf"}]
    for outp in (None, "Data", "Number", "String", "Boolean", "List", "Path"):
        for fz in (None, True, False):
            out.append({"c": "Result", "out": outp, "fuzzy": fz})
    items = [{"c": "Parameter"}, {"c": "Number"}, {"c": "String"}, {"c": "Boolean"}, {"c": "Result", "out": None, "fuzzy": None},
             {"c": "Result", "out": "Data", "fuzzy": False}, {"c": "Result", "out": "Data", "fuzzy": True},
             {"c": "List", "of": {"c": "Number"}}, {"c": "List", "of": {"c": "Result", "out": None, "fuzzy": None}},
             {"c": "Path", "must_exist": False}, {"c": "DataType", "table": "csv"}]
    for it in items:
        out.append({"c": "List", "of": it})
    out.append({"c": "Number", "required": False})
    return out


def matrix_cases(ctx):
    for p in param_specs():
        for r in RAW_POOL + [{"t": "array"}, {"t": "array", "kind": "hard_mask"}, {"t": "array", "kind": "read_only"}, {"t": "array", "kind": "plain"}]:
            if r["t"] == "array" and p["c"] not in ("Data", "Parameter"):
                continue
            if r["t"] == "npnum" and "Number" not in param_kind(p) and p["c"] != "Parameter":
                continue  # numpy scalars are handed over where numbers are expected; nobody passes one as a path or a data type
            for wd in (True, False, "empty", "relative"):
                if wd in ("empty", "relative") and not ("Path" in param_kind(p) and (r["t"] in ("path", "str") or r["t"].startswith("list"))):
                    continue  # the working directory only matters for paths
                yield {"param": p, "raw": r, "wd": wd}


# ---------------------------------------------------------------------------- generated raws

def raw_scalars():
    return st.one_of(
        st.integers(-10 ** 12, 10 ** 12).map(I),
        st.floats(allow_nan=True, allow_infinity=True).map(Fl),
        st.booleans().map(lambda b: {"t": "bool", "v": int(b)}),
        st.from_regex(r"[+-]?\d{1,6}", fullmatch=True).map(S),
        st.from_regex(r"[+-]?(\d{1,4}\.\d{0,4}|\.\d{1,4})", fullmatch=True).map(S),
        st.text(alphabet=st.sampled_from(list("abcTRUEfalse _-/.é")), max_size=8).map(S),
        st.sampled_from(["PData", "PFuzzy", "PNum", "USrc", "UNoOut", "URead", "UFz", "UPrint", "Nope", "True", "FALSE", "Float", "Integer"]).map(S),
        st.sampled_from(["PData", "PFuzzy", "PNum", "PPath", "USrc", "UNoOut", "URead", "UFz", "UPrint"]).map(lambda n: {"t": "cmd", "name": n}),
        st.sampled_from(["abs_existing", "abs_missing", "rel_existing", "rel_missing", "parent_existing", "parent_shadow",
                         "dotslash_existing", "dotfile_existing", "spaces_existing", "named_like_wd"]).map(lambda k: {"t": "path", "kind": k}),
    )


def raws():
    return st.recursive(
        raw_scalars(),
        lambda inner: st.one_of(
            st.lists(inner, max_size=4).map(lambda xs: {"t": "list", "items": xs}),
            st.lists(inner, max_size=3).map(lambda xs: {"t": "listarg", "items": xs}),
            st.lists(st.tuples(st.text(alphabet="abc1", max_size=3).map(S), raw_scalars()), max_size=3).map(
                lambda kv: {"t": "dict", "items": [list(x) for x in {k["v"]: (k, v) for k, v in kv}.values()]}),
        ),
        max_leaves=8,
    )


def generated_cases():
    return st.builds(lambda p, r, wd: {"param": p, "raw": r, "wd": wd}, st.sampled_from(param_specs()), raws(),
                     st.sampled_from([True, True, False, False, "empty", "relative"]))


# ---------------------------------------------------------------------------- values that look alike

LOOKALIKES = [
    [Fl(0.0), Fl(-0.0), {"t": "bool", "v": 0}, I(0), S("0"), S("0.0"), S("-0.0"), NP("float32", 0.0), NP("int64", 0)],
    [Fl(1.0), {"t": "bool", "v": 1}, I(1), S("1"), S("1.0"), S("+1"), NP("float32", 1.0), NP("int64", 1)],
    [I(2), Fl(2.0), S("2"), S("2.0"), S("2."), NP("float16", 2.0)],
    [S("true"), S("True"), S("TRUE"), {"t": "bool", "v": 1}, I(1), S("1")],
]


def lookalike_cases():
    specs = [{"c": "Number"}, {"c": "List", "of": {"c": "Number"}}, {"c": "Boolean"}, {"c": "String"}, {"c": "Parameter"},
             {"c": "List", "of": {"c": "Boolean"}}, {"c": "List", "of": {"c": "String"}}]
    for p in specs:
        for group in LOOKALIKES:
            for r in range(len(group)):
                yield {"param": p, "seq": group[r:] + group[:r], "as_list": p["c"] == "List"}


def check_lookalikes(case, rec):
    """Values that compare (and hash) equal but differ in kind or sign -- 0, 0.0, -0.0, False, "0" ... -- cleaned one after
    the other in one process: each gets its own documented result, whatever was cleaned before it."""
    env = Env(True)
    try:
        pspec = case["param"]
        param = make_param(pspec)
        fails = []
        rec.label("lookalikes:" + param_kind(pspec))
        rec.nontrivial_case(case)
        for rspec in case["seq"]:
            if rspec["t"] == "npnum" and "Number" not in param_kind(pspec) and pspec["c"] != "Parameter":
                continue
            if case["as_list"]:
                rspec = L(rspec)
            raw, pristine = make_raw(rspec, env), make_raw(rspec, env)
            k1, v1 = do_clean(param, raw, env)
            sig = "%s|%s|after_lookalikes" % (param_kind(pspec), raw_kind(rspec))
            if k1 == "raises":
                return [Failure(sig + "|raises:%s" % type(v1).__name__, repr(v1)[:200])]
            try:
                want = ("value", ref_clean(pspec, pristine, env))
            except Err as e:
                want = ("error", e.name)
            except Unspecified:
                continue
            if want[0] == "error":
                if k1 != "error" or type(v1).__name__ != want[1]:
                    fails.append(Failure(sig + "|expected:%s" % want[1], "got %r after cleaning %r" % (v1, [x.get("v") for x in case["seq"]])))
            elif k1 != "value" or not same(v1, want[1]):
                fails.append(Failure(sig + "|wrong_value", "expected %r (%s), got %r (%s) in the sequence %r" % (
                    want[1], type(want[1]).__name__, v1, type(v1).__name__, [x.get("v") for x in case["seq"]])))
            if fails:
                return fails
        return []
    finally:
        env.close()


PARTS = {"clean": check_case, "lookalikes": check_lookalikes}


def run_shard(ctx, rec):
    drive_enum(ctx, rec, "lookalikes", lookalike_cases(), check_lookalikes, exhaustive=True, max_novel=8)
    drive_enum(ctx, rec, "clean", matrix_cases(ctx), check_case, exhaustive=True, max_novel=12)
    drive(ctx, rec, "clean", generated_cases(), check_case, ctx.n(2500, 80000))
