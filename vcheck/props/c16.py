"""C16 -- EEMS 2.0 command files translate to equivalent MPilot programs."""
from __future__ import annotations

import os
import shutil
import tempfile

import numpy
from hypothesis import strategies as st

from .. import spec as SP
from .. import unit as U
from ..core import sstr, Failure, drive, drive_enum
from ..gen import models as M
from . import c12, c15

ID = "C16"
LEVEL = "exploration"
DESIGN_REF = "DESIGN.md section 3, C16"
TECHNIQUE = "exhaustive check of the 25 EEMS 2.0 names against an independent name table and the loaded libraries, plus Hypothesis-generated models rendered in EEMS 2.0 syntax and in MPilot syntax (differential: structure, cleaned arguments, results)"
LEVEL_TEXT = (
    "Each of the 25 EEMS 2.0 command names is written as a one-command EEMS 2.0 file and loaded with both built-in "
    "library sets: the command it resolves to must exist and be the one an independent hand-written table names. "
    "Generated typed models restricted to commands that have an EEMS 2.0 name are rendered in EEMS 2.0 syntax "
    "(NAME(args, NewFieldName = R [, OutFileName = x]); READ may leave NewFieldName out when the result is named after "
    "the input field), optionally mixed with MPilot-style commands, in any order, and loaded; the program must have the "
    "same result names, command classes and cleaned arguments as the MPilot-syntax rendering of the same model, and both "
    "must compute equal results. The name table is enumerated completely; models are sampled."
    ' Both files are also written with the opening parenthesis on a later line for some commands, and the line of every command is compared between the two programs.'
)
LEVEL_TEXT += ' Added later: several commands, or the whole file, on one line; output-file / new-field arguments given twice.'
LEVEL_NOTE = (
    "No EEMS 2.0 manual is available offline: the table in this module was written from the operation each name denotes and "
    "the MPilot docs. SCORERANGEBENEFIT/SCORERANGECOST have no MPilot counterpart: recorded finding."
)
RULE = (
    "Cases: (name) EEMS 2.0 name x library set; (model) typed model + per-command style (v2 / v3) + NewFieldName/OutFileName "
    "choices + order. Oracle: resolved class exists and equals the table entry; v2-loaded program == v3-loaded program "
    "(result names, classes, cleaned arguments) and equal results after run(). Non-trivial: a model with >= 3 commands in "
    "EEMS 2.0 syntax including a READ without NewFieldName or a command with OutFileName, or a mixed file; distinct = digest."
)
ASSUMPTIONS = [
    "EEMS 2.0 commands take the same parameter names as their MPilot counterparts (the conversion only renames and drops NewFieldName/OutFileName)",
    "MPilot-style commands inside an EEMS 2.0 file carry no NewFieldName/OutFileName (the statement does not say whether they are dropped there)",
]

EEMS2 = {
    "READ": "EEMSRead", "CVTTOFUZZY": "CvtToFuzzy", "CVTTOFUZZYCURVE": "CvtToFuzzyCurve", "CVTTOFUZZYCAT": "CvtToFuzzyCat",
    "MEANTOMID": "CvtToFuzzyMeanToMid", "COPYFIELD": "Copy", "NOT": "FuzzyNot", "OR": "FuzzyOr", "AND": "FuzzyAnd",
    "ORNEG": "FuzzyAnd", "XOR": "FuzzyXOr", "SUM": "Sum", "MULT": "Multiply", "DIVIDE": "ADividedByB", "MIN": "Minimum",
    "MAX": "Maximum", "MEAN": "Mean", "UNION": "FuzzyUnion", "DIF": "AMinusB", "SELECTEDUNION": "FuzzySelectedUnion",
    "WTDUNION": "FuzzyWeightedUnion", "WTDMEAN": "WeightedMean", "WTDSUM": "WeightedSum",
    "SCORERANGEBENEFIT": None, "SCORERANGECOST": None,
}
V2_OF = {}
for _k, _v in EEMS2.items():
    if _v and _k != "ORNEG":
        V2_OF[_v] = _k


def v2_line(cmd, name, args, new_field=True, out_file=None, pos=None, twice=False):
    """pos: (position of NewFieldName, position of OutFileName) among the arguments; None = at the end."""
    parts = ["%s = %s" % (k, c12.fmt(v)) for k, v in args]
    extra = []
    if new_field:
        extra.append("NewFieldName = %s" % name)
    if out_file:
        extra.append('OutFileName = "%s"' % out_file)
    if twice:
        # an output-file argument left behind by an edit, next to the new one: both are dropped
        extra.append('OutFileName = "old_%s"' % out_file if out_file else "NewFieldName = %s" % name)
    for k, e in enumerate(extra):
        where = len(parts) if pos is None else pos[k % len(pos)] % (len(parts) + 1)
        parts.insert(where, e)
    return "%s(%s)" % (cmd, ", ".join(parts))


def check_name(case, rec):
    from mpilot.exceptions import CommandDoesNotExist, MPilotError
    from mpilot.program import Program

    io, v2 = case["io"], case["name"]
    target = EEMS2[v2]
    t = SP.table(io)
    rec.label("name:" + v2)
    rec.nontrivial_case(case)
    base = c12.base_commands(io)
    if target is not None:
        c = c12.canonical(target, "X", t[target], {"nf": "Src", "fz": "Fz"}, io)
        line = v2_line(v2, "X", c["args"])
    else:
        line = v2_line(v2, "X", [["InFieldName", {"r": "Src"}]])
    text = c12.text_of(base) + line + "\n"
    try:
        p = Program.from_source(text, libraries=c12.libraries(io))
    except CommandDoesNotExist as exc:
        return [Failure("name_unmapped|%s" % v2, "%s resolves to %r, which does not exist in %s" % (v2, exc.name, io.split(".")[-1]))]
    except (MPilotError, SyntaxError) as exc:
        return [Failure("name_load_fails:%s|%s" % (type(exc).__name__, v2), "%s\n%s" % (sstr(exc)[:200], text))]
    if "X" not in p.commands:
        return [Failure("result_name|%s" % v2, "commands: %r" % list(p.commands))]
    got = type(p.commands["X"]).__name__
    if target is not None and got != target:
        return [Failure("name_maps_elsewhere|%s" % v2, "%s -> %s, table says %s" % (v2, got, target))]
    return []


def name_cases():
    for io in (SP.CSV, SP.NETCDF):
        for name in sorted(EEMS2):
            yield {"io": io, "name": name}


# ---------------------------------------------------------------------------------- models

V2_COMMANDS = [c for c in V2_OF if c != "EEMSRead"]
V3_ONLY = ["Normalize", "CvtFromFuzzy", "CvtToBinary", "NormalizeCat", "CvtToFuzzyZScore"]


def renderings(case, joiner=None):
    """-> (v2 text, v3 text, expected result names in order)"""
    model = case["model"]
    cmds = c12.model_commands(model)[2:]  # without the writers
    styles = case["styles"]
    v2_lines, v3_lines = [], []
    rename = {}
    omitted, omitted_cols = set(), set()
    # READ without NewFieldName names the result after the input field
    style = case.get("name_style", 0)
    if style:
        for c in cmds:  # result names are arbitrary identifiers: leading underscores, inner digits, mixed case
            rename[c["name"]] = {1: "_%s", 2: "%s_", 3: "x9_%s_Y", 4: "__%s"}[style] % c["name"].lower()
    for k, c in enumerate(cmds):
        st_ = styles[k % len(styles)]
        if c["cmd"] == "EEMSRead" and (st_.get("omit_new_field") or st_.get("same_name")):
            col = [a[1]["s"] for a in c["args"] if a[0] == "InFieldName"][0]
            if col not in rename.values() and col not in omitted_cols:
                rename[c["name"]] = col
                if st_.get("omit_new_field"):
                    omitted.add(c["name"])  # otherwise NewFieldName is spelled out although it repeats the field's name
                omitted_cols.add(col)
    def rn(v):
        if isinstance(v, dict) and "r" in v:
            return {"r": rename.get(v["r"], v["r"])}
        if isinstance(v, list):
            return [rn(x) for x in v]
        return v
    names = []
    for k, c in enumerate(cmds):
        st_ = styles[k % len(styles)]
        name = rename.get(c["name"], c["name"])
        args = [[a, rn(v)] for a, v in c["args"] if a != "Metadata"]
        names.append(name)
        v3_lines.append("%s = %s(%s)" % (name, c["cmd"], ", ".join("%s = %s" % (a, c12.fmt(v)) for a, v in args)))
        if c["cmd"] in V2_OF and (st_.get("v2", True) or c["cmd"] == "EEMSRead"):
            omit = c["cmd"] == "EEMSRead" and c["name"] in omitted
            line = v2_line(V2_OF[c["cmd"]], name, args, new_field=not omit and not st_.get("assigned"),
                           out_file="ignored_%d.csv" % k if st_.get("out_file") else None, pos=st_.get("pos"),
                           twice=bool(st_.get("twice")) and (bool(st_.get("out_file")) or (not omit and not st_.get("assigned"))))
            if st_.get("assigned") and not omit:
                line = "%s = %s" % (name, line)  # an EEMS 2.0 name used with an explicit result name
            v2_lines.append(line)
        else:
            v2_lines.append(v3_lines[-1])
        if st_.get("paren_break"):
            # the opening parenthesis on a line of its own (after a comment), in both files alike: they stay line-aligned
            brk = {1: "\n(", 2: "  # arguments follow\n    ("}[st_["paren_break"]]
            v2_lines[-1] = v2_lines[-1].replace("(", brk, 1)
            v3_lines[-1] = v3_lines[-1].replace("(", brk, 1)
    if joiner:
        # the grammar asks for no line break between commands: several of them, or the whole file, on one line
        glue = lambda lines: "".join(l + ((" " if joiner == "one_line" or k % 2 == 0 else "\n") if k < len(lines) - 1 else "\n") for k, l in enumerate(lines))
        return glue(v2_lines), glue(v3_lines), names
    return "\n".join(v2_lines) + "\n", "\n".join(v3_lines) + "\n", names


def check_model(case, rec):
    from mpilot.program import EEMS_CSV_LIBRARIES, Program

    v2_text, v3_text, names = renderings(case)
    if case.get("numeric_columns"):
        # columns named by year: the field name of a read is then written as a number in both files
        import re

        num = lambda t: re.sub(r'InFieldName = "?c(\d)"?', lambda m: "InFieldName = %d" % (2020 + int(m.group(1))), t)
        v2_text, v3_text = num(v2_text), num(v3_text)
    if not any(l.split("(")[0].split("=")[-1].strip() in EEMS2 for l in v2_text.splitlines()):
        rec.exclude("no_v2_command_in_file")
        return []
    tmp = tempfile.mkdtemp(prefix="vcheck-c16-")
    fails = []
    try:
        M.write_table(case["model"], os.path.join(tmp, "input.csv"))
        if case.get("numeric_columns"):
            with open(os.path.join(tmp, "input.csv")) as f:
                head, rest = f.read().split("\n", 1)
            with open(os.path.join(tmp, "input.csv"), "w") as f:
                f.write(",".join(str(2020 + int(h[1:])) if h[:1] == "c" and h[1:].isdigit() else h for h in head.split(",")) + "\n" + rest)
            rec.label("numeric_column_names")
        from ..history import maybe_earlier_v2_load

        maybe_earlier_v2_load(v3_text)
        v2_lined = v2_text
        if case.get("joiner"):
            v2_text, v3_text, _ = renderings(case, case["joiner"])
            if case.get("numeric_columns"):
                v2_text, v3_text = num(v2_text), num(v3_text)
            rec.label("commands_share_lines:" + case["joiner"])
        try:
            p3 = Program.from_source(v3_text, libraries=EEMS_CSV_LIBRARIES, working_dir=tmp)
        except Exception as exc:
            rec.exclude("v3_rendering_not_loadable:%s" % type(exc).__name__)
            return []
        try:
            p2 = Program.from_source(v2_text, libraries=EEMS_CSV_LIBRARIES, working_dir=tmp)
        except Exception as exc:
            return [Failure("v2_load_raises:%s" % type(exc).__name__, "%s\n%s" % (sstr(exc)[:200], v2_text))]
        mixed = any("=" in l.split("(")[0] for l in v2_lined.splitlines())
        if not any(l.split("(")[0].strip() in EEMS2 for l in v2_lined.splitlines()):
            rec.label("file:no_bare_command")
        omitted = any(l.startswith("READ(") and "NewFieldName" not in l for l in v2_lined.splitlines())
        outfile = "OutFileName" in v2_lined and "ignored_" in v2_lined
        rec.label("file:" + ("mixed" if mixed else "pure_v2"))
        if omitted:
            rec.label("read_without_new_field_name")
        if outfile:
            rec.label("out_file_name_dropped")
        if any(l.split("(", 1)[0] in EEMS2 and "NewFieldName" in l and "InFieldName =" in l
               and l.index("NewFieldName") < l.index("InFieldName =") for l in v2_lined.splitlines()):
            rec.label("new_field_name_before_in_field_name")
        if len(names) >= 3 and (omitted or outfile or mixed):
            rec.nontrivial_case(case)
            rec.label("nontrivial", sample={"v2": v2_text} if len(v2_text) < 600 else None)
        # the two files are written line for line alike: every command sits on the same line in both
        for n in names:
            if n in p2.commands and n in p3.commands and p2.commands[n].lineno != p3.commands[n].lineno:
                return [Failure("v2_differs:command_line|%s" % V2_OF.get(type(p3.commands[n]).__name__, "?"),
                                "%s: line %r in the EEMS 2.0 file, %r in the MPilot file\nEEMS 2.0:\n%s\nMPilot:\n%s" % (
                                    n, p2.commands[n].lineno, p3.commands[n].lineno, v2_text, v3_text))]
        diff = c15.compare_programs(p3, p2)
        if diff:
            kind, cn, an = diff
            cmdname = type(p3.commands[cn]).__name__ if cn in p3.commands else "?"
            return [Failure("v2_differs:%s|%s" % (kind, V2_OF.get(cmdname, cmdname)), "%r\nEEMS 2.0:\n%s\nMPilot:\n%s" % (diff, v2_text, v3_text))]
        try:
            p3.run()
        except Exception as exc:
            rec.exclude("v3_does_not_run:%s" % type(exc).__name__)
            return []
        before = sorted(os.listdir(tmp))
        try:
            p2.run()
        except Exception as exc:
            return [Failure("v2_run_raises:%s" % type(exc).__name__, "%s\n%s" % (sstr(exc)[:200], v2_text))]
        for n in names:
            a, b = p3.commands[n].result, p2.commands[n].result
            if not (isinstance(a, numpy.ndarray) and isinstance(b, numpy.ndarray) and U.result_equal(a, b, 0.0)):
                fails.append(Failure("v2_results_differ|%s" % V2_OF.get(type(p3.commands[n]).__name__, "?"), "%s\n%s" % (n, v2_text)))
                break
        if sorted(os.listdir(tmp)) != before:
            fails.append(Failure("v2_output_file_written", "OutFileName arguments must be dropped: %r" % sorted(os.listdir(tmp))))
    finally:
        shutil.rmtree(tmp, ignore_errors=True)
    return fails


@st.composite
def model_cases(draw):
    mixed = draw(st.booleans())
    cmds = V2_COMMANDS + (V3_ONLY if mixed else [])
    model = draw(M.typed_models(max_nodes=7, cmds=cmds, with_meta=False, clean=True))
    styles = draw(st.lists(st.fixed_dictionaries({
        "v2": st.sampled_from([True, True, True, not mixed or False]) if mixed else st.just(True),
        "omit_new_field": st.booleans(), "out_file": st.sampled_from([False, False, True]),
        "pos": st.one_of(st.none(), st.lists(st.integers(0, 6), min_size=2, max_size=2)),
        "assigned": st.sampled_from([False, False, True]), "paren_break": st.sampled_from([0, 0, 0, 1, 2]), "same_name": st.sampled_from([False, False, True]),
        "twice": st.sampled_from([False, False, False, True])}), min_size=3, max_size=10))
    if draw(st.integers(0, 3)) == 0:
        for s_ in styles:  # a file in which no command is written bare
            s_["assigned"] = True
            s_["omit_new_field"] = False
    case = {"model": model, "styles": styles, "name_style": draw(st.sampled_from([0, 0, 1, 2, 3, 4]))}
    if draw(st.integers(0, 4)) == 0:
        case["joiner"] = draw(st.sampled_from(["one_line", "pairs"]))
    if draw(st.integers(0, 3)) == 0:
        case["numeric_columns"] = True
        for s_ in styles:
            s_["omit_new_field"] = False  # a number cannot name a result
            s_["same_name"] = False
    return case


PARTS = {"name": check_name, "model": check_model}


def run_shard(ctx, rec):
    drive_enum(ctx, rec, "name", name_cases(), check_name, exhaustive=True, max_novel=30)
    drive(ctx, rec, "model", model_cases(), check_model, ctx.n(1200, 30000))
