"""C17 -- CSV reading and writing are faithful."""
from __future__ import annotations

import csv
import io
import os
import re
import shutil
import struct
import tempfile

import numpy
from hypothesis import strategies as st

from .. import arr as A
from ..core import sstr, Failure, drive

ID = "C17"
LEVEL = "exploration"
DESIGN_REF = "DESIGN.md section 3, C17"
TECHNIQUE = "Hypothesis generation of CSV tables (all finite doubles, quoting, blank lines, missing-value choices, garbage in other columns) against an independent reader model; bit-exact write/read round trip"
LEVEL_TEXT = (
    "Tables with 1-6 columns and 0-12 rows are generated: header names from arbitrary text without line breaks (commas, "
    "quotes, blanks, non-ASCII; written with RFC-4180 quoting by the fixture), cells from every finite double "
    "(subnormals, extremes, -0.0) rendered by repr, %.17g or integer text, empty lines inserted anywhere, MissingVal "
    "chosen among the cell values and non-occurring values, both element types, other columns optionally replaced by "
    "garbage. EEMSRead must return dtype(float(cell)) in row order with exactly the cells equal to the missing value "
    "masked, unaffected by other columns; a missing header or non-numeric cell must raise InvalidDataFile naming the "
    "header/path resp. the physical file line. EEMSWrite must write the result names in listed order and one row per "
    "cell whose text parses back to the bit-identical double, and EEMSRead of the written file must return bit-identical "
    "arrays. Sampled, not exhaustive."
    ' Read cases may first hold and read another table at the same path; write cases may overwrite a file read before and may list a result several times.'
)
LEVEL_NOTE = "Integer columns are limited to |v| <= 2**53 (the reader parses through float); arrays are 1-D (the writer's documented assumption)."
RULE = (
    "Cases: (read) table + column + DataType + MissingVal + blank-line positions + garbage flag + fault (none | missing "
    "header | non-numeric cell at a row); (write) 1-4 result arrays (int64/float64, masks) with hostile result names. "
    "Oracle: independent reader model; exact error class/message content; bit equality via the float's 8 bytes. "
    "Non-trivial: >= 2 columns, at least one blank line or quoted header, and at least one value needing 17 significant "
    "digits (read); or a written file re-read bit-exactly with >= 2 columns (write); distinct = digest."
)
ASSUMPTIONS = ["finite cells only", "the missing value is integer-valued when the element type is Integer"]


def bits(x):
    return struct.pack("<d", float(x))


def cell_text(v, style):
    if isinstance(v, int):
        return str(v) if style != "float_text" else "%d.0" % v
    if style == "g17":
        return "%.17g" % v
    return repr(v)


def build_file(case, path):
    """Write the table with the fixture's own RFC-4180 writer; returns the physical line number of each data row."""
    cols = case["columns"]
    names = [c["name"] for c in cols]
    nrows = len(cols[0]["cells"])
    buf = io.StringIO()
    w = csv.writer(buf, lineterminator="\n")
    w.writerow(names)
    out_lines = [buf.getvalue()]
    line_of_row = []
    physical = 1
    blanks = case.get("blanks", [])
    for r in range(nrows):
        for _ in range(blanks.count(r)):
            out_lines.append("\n")
            physical += 1
        buf = io.StringIO()
        csv.writer(buf, lineterminator="\n").writerow([c["cells"][r] for c in cols])
        out_lines.append(buf.getvalue())
        physical += 1
        line_of_row.append(physical)
    for _ in range(blanks.count(nrows)):
        out_lines.append("\n")
    text = "".join(out_lines)
    if case.get("crlf"):
        text = text.replace("\n", "\r\n")
    with open(path, "w", newline="", encoding="utf-8") as f:
        f.write(text)
    return line_of_row


def run_read(path, field, dtype, missing):
    from mpilot.arguments import Argument
    from mpilot.libraries.eems.csv.io import EEMSRead

    args = [Argument("InFileName", path, 1), Argument("InFieldName", field, 2), Argument("DataType", dtype, 3)]
    if missing is not None:
        args.append(Argument("MissingVal", missing, 4))
    cmd = EEMSRead("R", args, lineno=1)
    try:
        return "ok", cmd.result
    except Exception as exc:
        return "err", exc


def check_read(case, rec):
    tmp = tempfile.mkdtemp(prefix="vcheck-c17-")
    try:
        return _check_read(case, rec, tmp)
    finally:
        shutil.rmtree(tmp, ignore_errors=True)


def _check_read(case, rec, tmp):
    path = os.path.join(tmp, "table.csv")
    if case.get("earlier"):
        # the path held another table a moment ago, and that table was read: what counts is what the file holds now
        build_file(case["earlier"], path)
        e = case["earlier"]
        run_read(path, e["columns"][e["target"] % len(e["columns"])]["name"], e["dtype"], e.get("missing"))
        rec.label("read_after_file_replaced")
    line_of_row = build_file(case, path)
    cols = case["columns"]
    k = case["target"] % len(cols)
    col = cols[k]
    dtype = case["dtype"]
    missing = case.get("missing")
    fault = case.get("fault")
    field = col["name"] if fault != "missing_header" else col["name"] + "_absent"
    status, res = run_read(path, field, dtype, missing)
    sig = "read|%s|%s" % (dtype, "missing" if missing is not None else "nomissing")
    fails = []
    rec.label("read:" + dtype)
    quoted_header = any(re.search(r'[",]| $|^ ', c["name"]) for c in cols)
    if fault == "missing_header":
        rec.label("fault:missing_header")
        rec.nontrivial_case(case)
        if status != "err" or type(res).__name__ != "InvalidDataFile":
            return [Failure("read|missing_header|got:%s" % (type(res).__name__ if status == "err" else "ok"), repr(res)[:200])]
        msg = sstr(res)
        if field not in msg or path not in msg:
            fails.append(Failure("read|missing_header|message", "message %r names neither header %r nor path" % (msg, field)))
        return fails
    if fault == "non_numeric":
        row = case["fault_row"] % max(1, len(col["cells"]))
        rec.label("fault:non_numeric")
        rec.nontrivial_case(case)
        if status != "err" or type(res).__name__ != "InvalidDataFile":
            return [Failure("read|non_numeric|got:%s" % (type(res).__name__ if status == "err" else "ok"), repr(res)[:200])]
        m = re.search(r"line (\d+)", sstr(res))
        if not m or int(m.group(1)) != line_of_row[row]:
            fails.append(Failure("read|non_numeric|line", "message %r, the bad cell is on physical line %d" % (sstr(res), line_of_row[row])))
        return fails
    if status == "err":
        return [Failure("%s|raises:%s" % (sig, A.exc_name(res)), sstr(res)[:300])]
    np_dtype = numpy.int64 if dtype == "Integer" else numpy.float64
    want = [np_dtype(float(t)) for t in col["cells"]]
    if not isinstance(res, numpy.ndarray) or res.shape != (len(want),):
        return [Failure(sig + "|shape", "result %r for %d rows" % (getattr(res, "shape", type(res)), len(want)))]
    data = numpy.ma.getdata(res)
    if data.dtype != numpy.dtype(np_dtype):
        fails.append(Failure(sig + "|dtype", "element type %s, requested %s" % (data.dtype, dtype)))
    mask = numpy.ma.getmaskarray(res)
    mv = np_dtype(missing) if missing is not None else None
    for i, w in enumerate(want):
        should_mask = mv is not None and w == mv
        if bool(mask[i]) != bool(should_mask):
            fails.append(Failure(sig + ("|mask_lost" if should_mask else "|mask_extra"), "row %d value %r missing value %r" % (i, w, missing)))
            break
        if not should_mask and bits(data[i]) != bits(w) and not (dtype == "Integer" and int(data[i]) == int(w)):
            fails.append(Failure(sig + "|value", "row %d: %r, cell text %r" % (i, data[i].item(), col["cells"][i])))
            break
    n17 = any(len(re.sub(r"[^0-9]", "", t.split("e")[0]).lstrip("0")) >= 17 for t in col["cells"])
    if len(cols) >= 2 and (case.get("blanks") or quoted_header) and n17:
        rec.nontrivial_case(case)
        rec.label("read_nontrivial", sample=case if len(col["cells"]) <= 3 and len(cols) <= 2 else None)
    if case.get("blanks"):
        rec.label("blank_lines")
    if quoted_header:
        rec.label("quoted_header")
    if case.get("garbage"):
        rec.label("garbage_in_other_columns")
    if case.get("crlf"):
        rec.label("crlf_file")
    if missing is not None and any(mv == w for w in want):
        rec.label("missing_value_hits")
    return fails


# ------------------------------------------------------------------------------------ write

def check_write(case, rec):
    from mpilot.arguments import Argument
    from mpilot.libraries.eems.csv.io import EEMSWrite

    if case.get("tile_to"):
        reps = -(-case["tile_to"] // len(case["results"][0]["spec"]["data"]))
        case = dict(case, results=[dict(r, spec=dict(r["spec"], data=(r["spec"]["data"] * reps)[:case["tile_to"]],
                                                       mask=(r["spec"]["mask"] * reps)[:case["tile_to"]] if r["spec"]["mask"] else None))
                                   for r in case["results"]])
        rec.label("write_rows:%d" % case["tile_to"])
    tmp = tempfile.mkdtemp(prefix="vcheck-c17-")
    try:
        path = os.path.join(tmp, "out.csv")
        if case.get("preexisting"):
            # the output path exists already and has been read in this process: the writer replaces it
            with open(path, "w", newline="", encoding="utf-8") as f:
                csv.writer(f, lineterminator="\n").writerows([[c["name"] for c in case["results"]]] + [[str(7 + i)] * len(case["results"]) for i in range(case["preexisting"])])
            run_read(path, case["results"][0]["name"], "Float", None)
            rec.label("write_over_file_read_before")
        producers = [A.stub(c["name"], A.make_array(c["spec"])) for c in case["results"]]
        if case.get("listed"):
            # the same result may be listed more than once: one column per listed name, in the listed order
            idx = [k % len(producers) for k in case["listed"]]
            producers = [producers[k] for k in idx]
            case = dict(case, results=[case["results"][k] for k in idx])
            rec.label("write_with_repeated_names")
        cmd = EEMSWrite("W", [Argument("OutFileName", path, 1), Argument("OutFieldNames", producers, 2)], lineno=1)
        sig = "write|" + "+".join(sorted(set(c["spec"]["dtype"] for c in case["results"])))
        try:
            cmd.result
        except Exception as exc:
            return [Failure("%s|raises:%s" % (sig, A.exc_name(exc)), sstr(exc)[:300])]
        with open(path, newline="", encoding="utf-8") as f:
            rows = list(csv.reader(f))
        fails = []
        names = [c["name"] for c in case["results"]]
        n = len(case["results"][0]["spec"]["data"])
        rec.label("write")
        if not rows or rows[0] != names:
            return [Failure(sig + "|header", "header %r, result names %r" % (rows[0] if rows else None, names))]
        body = rows[1:]
        if len(body) != n or any(len(r) != len(names) for r in body):
            return [Failure(sig + "|rows", "%d rows of widths %r for %d cells x %d results" % (len(body), sorted(set(len(r) for r in body)), n, len(names)))]
        for j, c in enumerate(case["results"]):
            spec = c["spec"]
            mask = spec["mask"] or [0] * n
            for i in range(n):
                if mask[i]:
                    continue
                try:
                    back = float(body[i][j])
                except ValueError:
                    fails.append(Failure(sig + "|cell_text", "row %d column %d text %r" % (i, j, body[i][j])))
                    break
                if bits(back) != bits(spec["data"][i]):
                    fails.append(Failure(sig + "|not_bit_identical", "value %r written as %r" % (spec["data"][i], body[i][j])))
                    break
            if fails:
                break
        # read back through EEMSRead (columns without missing cells)
        if not fails:
            for j, c in enumerate(case["results"]):
                if c["spec"]["mask"] and any(c["spec"]["mask"]):
                    continue
                if [r["name"] for r in case["results"]].count(c["name"]) > 1 and case["results"][[r["name"] for r in case["results"]].index(c["name"])] is not c:
                    continue
                status, res = run_read(path, c["name"], "Float", None)
                rec.label("reread")
                if status == "err":
                    fails.append(Failure(sig + "|reread_raises:%s" % A.exc_name(res), sstr(res)[:200]))
                    break
                want = numpy.array(c["spec"]["data"], dtype=float)
                got = numpy.ma.getdata(res).astype(float)
                if got.shape != want.shape or got.tobytes() != want.tobytes() or numpy.ma.getmaskarray(res).any():
                    fails.append(Failure(sig + "|reread_differs", "column %r: %r vs %r" % (c["name"], got.tolist(), want.tolist())))
                    break
            if len(names) >= 2:
                rec.nontrivial_case(case)
                rec.label("write_nontrivial", sample=case if n <= 2 else None)
        return fails
    finally:
        shutil.rmtree(tmp, ignore_errors=True)


# ------------------------------------------------------------------------------------ strategies

HEADER = st.text(alphabet=st.sampled_from(list("abcXYZ019_ ,\"'.-é中") + ["\x0b", "\x0c", "\x1c", "\x1e", "\x85", "\u2028"]), min_size=1, max_size=8)
FINITE = st.floats(allow_nan=False, allow_infinity=False, allow_subnormal=True)
SPECIAL = st.sampled_from([0.0, -0.0, 5e-324, 2.2250738585072014e-308, 1.7976931348623157e+308, -1.7976931348623157e+308, 0.1, 1 / 3.0,
                           123456789.12345679, 1e22, 1e23, 9007199254740993.0])


@st.composite
def read_cases(draw):
    ncols = draw(st.integers(1, 6))
    nrows = draw(st.sampled_from([0, 1, 2, 3, 5, 8, 12]))
    names = draw(st.lists(HEADER, min_size=ncols, max_size=ncols, unique=True))
    dtype = draw(st.sampled_from(["Float", "Float", "Integer"]))
    target = draw(st.integers(0, ncols - 1))
    garbage = draw(st.booleans())
    cols = []
    values = []
    for k, nm in enumerate(names):
        cells = []
        for _ in range(nrows):
            if k != target and garbage:
                cells.append(draw(st.sampled_from(["", "abc", "--", "1,5", "NULL", " ", "\"q\""])))
                continue
            if dtype == "Integer" and k == target:
                v = draw(st.one_of(st.integers(-50, 50), st.integers(-2 ** 53, 2 ** 53)))
                cells.append(cell_text(v, draw(st.sampled_from(["int", "float_text"]))))
            else:
                v = draw(st.one_of(FINITE, SPECIAL, st.integers(-1000, 1000).map(float)))
                cells.append(cell_text(v, draw(st.sampled_from(["repr", "g17"]))))
            if k == target:
                values.append(v)
        cols.append({"name": nm, "cells": cells})
    missing = None
    if draw(st.booleans()):
        if values and draw(st.booleans()):
            missing = draw(st.sampled_from(values))
        else:
            missing = draw(st.sampled_from([-9999, 99, 0, -9999.5])) if dtype == "Float" else draw(st.sampled_from([-9999, 99, 0]))
    if missing is not None and dtype == "Float" and nrows and draw(st.integers(0, 2)) == 0:
        # a cell that is almost, but not, the missing value stays an ordinary cell
        near = missing * (1 + 2e-6) if missing else 1e-9
        cols[target]["cells"][draw(st.integers(0, nrows - 1))] = cell_text(near, "repr")
    blanks = draw(st.lists(st.integers(0, nrows), max_size=3))
    case = {"columns": cols, "target": target, "dtype": dtype, "missing": missing, "blanks": blanks, "garbage": garbage,
            "crlf": draw(st.integers(0, 3)) == 0}
    f = draw(st.sampled_from([None] * 6 + ["missing_header", "non_numeric"]))
    if f == "missing_header" and not any(c["name"] == names[target] + "_absent" for c in cols):
        case["fault"] = f
    elif f == "non_numeric" and nrows:
        row = draw(st.integers(0, nrows - 1))
        case["fault"], case["fault_row"] = f, row
        cols[target]["cells"][row] = draw(st.sampled_from(["abc", "", "1,5", "NULL", "1.2.3", " ", "--"]))
        # rows before the bad one must be numeric, which they are; later bad rows do not matter
    if draw(st.integers(0, 3)) == 0:
        n2 = draw(st.sampled_from([1, 2, nrows, nrows + 1]))
        other = draw(st.booleans())
        case["earlier"] = {"columns": [{"name": names[target] if not other else names[target] + "_old",
                                        "cells": [repr(float(draw(st.integers(-9, 9)))) for _ in range(n2)]}],
                           "target": 0, "dtype": "Float", "missing": draw(st.sampled_from([None, 0]))}
    return case


@st.composite
def write_cases(draw):
    k = draw(st.integers(1, 4))
    n = draw(st.integers(1, 8))
    names = draw(st.lists(HEADER, min_size=k, max_size=k, unique=True))
    results = []
    for nm in names:
        dtype = draw(st.sampled_from(["float64", "float64", "int64"]))
        if dtype == "int64":
            data = draw(st.lists(st.one_of(st.integers(-100, 100), st.integers(-2 ** 53, 2 ** 53)), min_size=n, max_size=n))
        else:
            data = draw(st.lists(st.one_of(FINITE, SPECIAL), min_size=n, max_size=n))
        mask = draw(st.one_of(st.none(), st.lists(st.sampled_from([0, 0, 0, 1]), min_size=n, max_size=n)))
        results.append({"name": nm, "spec": {"data": data, "mask": mask, "dtype": dtype}})
    case = {"results": results}
    big = draw(st.sampled_from([None] * 14 + [256, 1000, 4096, 8192]))
    if big:
        case["tile_to"] = big  # the same cells repeated up to a table of this many rows (a power of two, a round number)
    if draw(st.integers(0, 2)) == 0:
        case["preexisting"] = draw(st.sampled_from([1, n, n + 2]))
    if draw(st.integers(0, 3)) == 0:
        case["listed"] = draw(st.lists(st.integers(0, 7), min_size=2, max_size=5))
    return case


def in_place_cases():
    for how in ("run", "result_of_writer", "run_of_writer", "partly_evaluated"):
        for n in (1, 3, 40):
            yield {"how": how, "rows": n}


def check_in_place(case, rec):
    """A table updated in place: the writer's output path is the file its (not yet evaluated) inputs are read from.
    Whichever way the write is triggered, the file afterwards holds the listed results."""
    from mpilot.program import EEMS_CSV_LIBRARIES, Program

    tmp = tempfile.mkdtemp(prefix="vcheck-c17-")
    try:
        path = os.path.join(tmp, "table.csv")
        a = [0.5 * k - 3 for k in range(case["rows"])]
        b = [7.25 - k for k in range(case["rows"])]
        with open(path, "w") as f:
            f.write("a,b\n" + "".join("%r,%r\n" % (x, y) for x, y in zip(a, b)))
        text = ('A = EEMSRead(InFileName = "table.csv", InFieldName = a)\nB = EEMSRead(InFileName = "table.csv", InFieldName = b)\n'
                'S = Sum(InFieldNames = [A, B])\nW = EEMSWrite(OutFileName = "table.csv", OutFieldNames = [A, S])\n')
        prog = Program.from_source(text, libraries=EEMS_CSV_LIBRARIES, working_dir=tmp)
        sig = "in_place|%s" % case["how"]
        rec.label("in_place:" + case["how"])
        rec.nontrivial_case(case)
        try:
            if case["how"] == "run":
                prog.run()
            elif case["how"] == "result_of_writer":
                prog.commands["W"].result
            elif case["how"] == "run_of_writer":
                prog.commands["W"].run()
            else:
                prog.commands["A"].result
                prog.commands["W"].result
        except Exception as exc:
            return [Failure(sig + "|raises:%s" % A.exc_name(exc), sstr(exc)[:300])]
        with open(path, newline="") as f:
            rows = list(csv.reader(f))
        want = [["A", "S"]] + [[x, x + y] for x, y in zip(a, b)]
        got = [rows[0]] + [[float(c) for c in r] for r in rows[1:]] if rows else rows
        if got != want:
            return [Failure(sig + "|file_content", "file holds %r..., expected %r..." % (rows[:3], want[:3]))]
        return []
    finally:
        shutil.rmtree(tmp, ignore_errors=True)


PARTS = {"read": check_read, "write": check_write, "in_place": check_in_place}


def run_shard(ctx, rec):
    from ..core import drive_enum

    drive_enum(ctx, rec, "in_place", in_place_cases(), check_in_place, exhaustive=True)
    drive(ctx, rec, "read", read_cases(), check_read, ctx.n(3000, 100000))
    drive(ctx, rec, "write", write_cases(), check_write, ctx.n(1500, 40000))
