"""C10 -- parsing delivers exactly what was written, regardless of layout."""
from __future__ import annotations

from hypothesis import strategies as st

from ..core import Failure, drive, drive_enum, run_check
from ..gen import render as RD

ID = "C10"
LEVEL = "exploration"
DESIGN_REF = "DESIGN.md section 3, C10"
TECHNIQUE = "Hypothesis grammar-based generation of abstract programs and layouts (random, and coverage-guided through atheris/libFuzzer feeding the same strategy via fuzz_one_input): round-trip equality of the parse tree with the generating AST, layout metamorphic relation, and single-token corruptions that must raise SyntaxError"
LEVEL_TEXT = (
    "Abstract command files (1-5 commands, 0-5 arguments; integers, decimals with optional exponent, quoted strings over "
    "arbitrary Unicode with escapes, unquoted strings of every lexical class, lists nested to depth 3, tuples) are "
    "rendered with generated layout (blanks/tabs, line breaks, comment lines, trailing comments, trailing commas, "
    "single/double/no quotes, LF/CRLF). Parser().parse must return exactly the generating AST (order, names, int vs "
    "float kind and exact value, string content, list nesting, tuple maps), the canonical and the decorated rendering "
    "must parse to equal trees, and each single-token corruption that is outside the grammar by construction must "
    "raise SyntaxError and nothing else. Sampled, not exhaustive. A small enumerated part puts literals at the edge of the "
    "token rules (numerals of 4299-6000 digits; quoted strings with undecodable escapes) in scalar, list and tuple "
    "positions: an integer or a syntax error, resp. a syntax error or the literal content -- never another kind of value."
    ' Two further parts: a process-history part (a fresh Parser returns the same tree and version for a text whatever files of the other syntax were parsed in between) and, in renderings, bare EEMS 2.0 commands, the opening parenthesis on a later line, quoted strings spanning physical lines, bare-CR line ends and files ending in a comment without a line break.'
)
LEVEL_TEXT += ' Added later: letters of other alphabets directly behind identifiers and inside names (a corruption); a reuse part: one Parser object across several files with rejected ones among them, compared with fresh parsers.'
LEVEL_NOTE = (
    "Excluded by construction (docs and pinned tests disagree or are silent): lone backslashes inside "
    "quotes, exponent-only numerals such as 1e5, True/False as identifiers, colons inside list elements. Unquoted strings "
    "made of several tokens are a recorded finding (known_findings.json) and only that signature is suppressed."
)
RULE = (
    "Cases are abstract programs with an explicit layout (see vcheck/gen/render.py) drawn by Hypothesis; a second part "
    "applies one corruption (drop ')' / ']' / '[' / '=' / ',', doubled comma, unterminated quote) to a rendering. "
    "Oracle: parsed tree == generating AST with type-exact comparison; parse(canonical layout) == parse(decorated "
    "layout); corruption => SyntaxError only. Non-trivial: a rendering containing at least one comment, at least one "
    "argument or list spread over several lines and at least one string that needs quoting or escaping; distinct = "
    "digest of the case."
)
ASSUMPTIONS = [
    "a result name, its `=` and the command name are written on one line (as everywhere in the docs); the opening parenthesis may follow on a later line",
    "the documented lexical grammar: unquoted strings may not contain #:,=()[] or quotes; a colon is allowed in a top-level unquoted value",
]


def fresh_parser():
    from mpilot.parser.parser import Parser

    return Parser()


def first_difference(parsed, expected):
    """-> None | (kind, i, j) with kind in {"structure", "value"}."""
    if len(parsed) != len(expected):
        return ("structure", None, None)
    for i, (p, e) in enumerate(zip(parsed, expected)):
        if p[0] != e[0] or p[1] != e[1] or [a[0] for a in p[2]] != [a[0] for a in e[2]]:
            return ("structure", i, None)
        for j, (pa, ea) in enumerate(zip(p[2], e[2])):
            if not RD.same_value(pa[1], ea[1]):
                return ("value", i, j)
    return None


def value_differences(parsed, expected):
    out = []
    for i, (p, e) in enumerate(zip(parsed, expected)):
        for j, (pa, ea) in enumerate(zip(p[2], e[2])):
            if not RD.same_value(pa[1], ea[1]):
                out.append((i, j))
    return out


def prog_labels(prog, text):
    labs = set()
    for c in prog["commands"]:
        for a in c["args"]:
            labs |= RD.value_classes(a["value"])
    if "#" in "".join(
            (g.get("lines") or [""])[0] + "".join((g.get("lines") or [""])[1:])
            for g in all_gaps(prog)):
        labs.add("comment")
    return labs


def all_gaps(prog):
    out = [prog.get("head"), prog.get("tail")]
    def val(v):
        for g in (v.get("g") or []) + (v.get("ig") or []):
            out.append(g)
        if v["k"] == "list":
            for x in v["items"]:
                val(x)
    for c in prog["commands"]:
        out.extend(c.get("g") or [])
        out.append(c.get("after"))
        for a in c["args"]:
            out.extend(a.get("g") or [])
            val(a["value"])
    return [g for g in out if g]


def multiline_arg(lm):
    for k, line in lm.items():
        if k[0] == "val" and k[-1] == "end" and lm.get(k[:-1]) != line:
            return True
    for k, line in lm.items():
        if k[0] == "arg" and lm.get(("val",) + k[1:]) not in (None, line):
            return True
    return False


def check_roundtrip(prog, rec):
    text, lm = RD.render(prog)
    expected = RD.expected_program(prog)
    labs = prog_labels(prog, text)
    for lab in labs:
        rec.label(lab)
    needs_quote = bool(labs & {"quoted:escape", "quoted:non_ascii", "quoted:delimiters", "quoted:empty"})
    if "comment" in labs and multiline_arg(lm) and needs_quote:
        rec.nontrivial_case(prog)
        rec.label("nontrivial", sample={"text": text} if len(text) < 220 else None)
    if prog.get("nl") == "\r\n":
        rec.label("crlf")
    if prog.get("nl") == "\r":
        rec.label("bare_cr")
    if "#" in (prog.get("eof") or ""):
        rec.label("comment_at_eof_without_newline")
    try:
        tree = fresh_parser().parse(text)
    except Exception as exc:
        cls = "+".join(sorted(labs - {"comment"})) if isinstance(exc, SyntaxError) else ""
        # attribute a rejection to the narrowest value class present
        culprit = blame(prog, lambda p: _raises(p))
        return [Failure("valid_text_rejected:%s|%s" % (type(exc).__name__, culprit), "%r -> %r" % (text[:300], exc))]
    parsed = RD.parsed_program(tree)
    fails = []
    diff = first_difference(parsed, expected)
    if diff:
        kind, i, j = diff
        if kind == "structure":
            fails.append(Failure("structure", "%r -> %r" % (text[:300], parsed)))
        else:
            for i, j in value_differences(parsed, expected):
                v = prog["commands"][i]["args"][j]["value"]
                cls = "+".join(sorted(RD.value_classes(v)))
                fails.append(Failure("value|%s" % cls, "argument %s of %s: expected %r, parsed %r; text %r" % (
                    prog["commands"][i]["args"][j]["name"], prog["commands"][i]["result"], expected[i][2][j][1],
                    parsed[i][2][j][1], text[:200])))
        return fails
    # metamorphic: layout must not matter
    canon_text, _ = RD.render(RD.strip_layout(prog))
    try:
        canon = RD.parsed_program(fresh_parser().parse(canon_text))
        if first_difference(canon, parsed) is not None:
            fails.append(Failure("layout_dependent", "%r vs %r" % (text[:200], canon_text[:200])))
    except Exception as exc:
        fails.append(Failure("layout_dependent:canonical_rejected:%s" % type(exc).__name__, repr(canon_text[:300])))
    return fails


def _raises(prog):
    try:
        fresh_parser().parse(RD.render(prog)[0])
        return False
    except Exception:
        return True


def blame(prog, fails_fn):
    """Find one argument whose value alone (in a one-command canonical program) reproduces the failure."""
    for c in prog["commands"]:
        for a in c["args"]:
            mini = {"nl": "\n", "commands": [{"result": "R", "command": "C", "args": [{"name": "P", "value": RD.strip_layout(
                {"commands": [{"result": "R", "command": "C", "args": [a]}]})["commands"][0]["args"][0]["value"]}]}]}
            if fails_fn(mini):
                return "+".join(sorted(RD.value_classes(a["value"])))
    return "layout"


# ------------------------------------------------------------------------------ corruptions

CORRUPTIONS = ["drop_rparen", "drop_rbrack", "drop_lbrack", "drop_equal", "drop_hequal", "drop_acomma", "double_comma",
               "unterminated_quote", "drop_lparen", "stray_rbrack", "letter_in_name"]


def corrupt(prog, kind, pick):
    p = dict(prog, _want_tokens=True)
    text, lm, out = RD.render(p)
    parts = list(out.parts)
    toks = out.toks

    def of(*kinds):
        return [idx for idx, k in toks if k in kinds]

    if kind in ("drop_rparen", "drop_rbrack", "drop_lbrack", "drop_equal", "drop_hequal", "drop_acomma", "drop_lparen"):
        want = {"drop_rparen": "rparen", "drop_rbrack": "rbrack", "drop_lbrack": "lbrack", "drop_equal": "equal",
                "drop_hequal": "hequal", "drop_acomma": "acomma", "drop_lparen": "lparen"}[kind]
        idxs = of(want)
        if not idxs:
            return None
        i = idxs[pick % len(idxs)]
        if kind == "drop_acomma":
            # a trailing comma before ')' is optional: only a comma followed by another argument is required
            nxt = [k for idx, k in toks if idx > i]
            if not nxt or nxt[0] != "argname":
                return None
        parts[i] = " "
    elif kind == "double_comma":
        idxs = of("comma", "acomma")
        if not idxs:
            return None
        i = idxs[pick % len(idxs)]
        parts[i] = ", ,"
    elif kind == "stray_rbrack":
        idxs = of("acomma", "rparen")
        i = idxs[pick % len(idxs)]
        parts[i] = "]" + parts[i]
    elif kind == "unterminated_quote":
        idxs = of("quoted")
        if not idxs:
            return None
        i = idxs[-1]
        q = parts[i][0]
        rest = "".join(parts[i + 1:])
        body = parts[i][1:-1]
        if q in rest or q in body or "\\" in body:
            return None
        parts[i] = parts[i][:-1]
    elif kind == "letter_in_name":
        # names are made of the ASCII letters, digits and '_': a letter from another alphabet inside a result, command
        # or argument name is not part of the name
        idxs = of("result", "command", "argname")
        i = idxs[pick % len(idxs)]
        at = 1 + (pick // 5) % len(parts[i])
        parts[i] = parts[i][:at] + "\u00e9\u00f6\u03bb\u0416\u00df"[pick % 5] + parts[i][at:]
    else:
        raise ValueError(kind)
    return "".join(parts)


def check_corruption(case, rec):
    text = corrupt(case["prog"], case["kind"], case["pick"])
    if text is None:
        rec.exclude("corruption_not_applicable:" + case["kind"])
        return []
    rec.label("corruption:" + case["kind"], sample={"kind": case["kind"], "text": text} if len(text) < 160 else None)
    rec.nontrivial_case(["corruption", text])
    try:
        tree = fresh_parser().parse(text)
    except SyntaxError:
        return []
    except Exception as exc:
        return [Failure("corruption:%s|raises:%s" % (case["kind"], type(exc).__name__), "%r -> %r" % (text[:300], exc))]
    return [Failure("corruption:%s|accepted" % case["kind"], "%r parsed to %r" % (text[:300], RD.parsed_program(tree)))]


# ------------------------------------------------------------------------------------ literals at the edge of the token rules

BAD_ESCAPES = ["\\x", "\\xZ1", "a\\x4", "\\u12", "\\u12G4", "\\U0011", "\\U99999999", "\\N{no such name}", "\\N", "ok\\x4g tail"]
HUGE_DIGITS = [4299, 4300, 4301, 6000]


def edge_cases():
    for where in ("scalar", "list_item", "tuple_value"):
        for body in BAD_ESCAPES:
            for q in ('"', "'"):
                yield {"edge": "bad_escape", "where": where, "body": body, "q": q}
        for n in HUGE_DIGITS:
            for sign in ("", "-", "+"):
                yield {"edge": "huge_int", "where": where, "digits": n, "sign": sign}


def check_edge(case, rec):
    """A numeral with thousands of digits is an integer (or refused as a syntax error where the interpreter cannot convert
    it) -- never a value of another kind; a quoted string with an escape sequence that cannot be decoded is refused (or, for a
    lenient reader, kept literally) -- never delivered with its quotes or as a non-string."""
    if case["edge"] == "huge_int":
        lit = case["sign"] + "1" + "0" * (case["digits"] - 2) + "7"
        want = (10 ** (case["digits"] - 1) + 7) * (-1 if case["sign"] == "-" else 1)
    else:
        lit = case["q"] + case["body"] + case["q"]
        want = case["body"]
    text = {"scalar": "R = C(P = %s, Q = 1)", "list_item": "R = C(Q = 1,\n  P = [a, %s, 2])", "tuple_value": "R = C(P = [k: %s])"}[case["where"]] % lit
    rec.label("edge:%s:%s" % (case["edge"], case["where"]))
    rec.nontrivial_case(case)
    try:
        tree = fresh_parser().parse(text)
    except SyntaxError:
        rec.label("edge_rejected:" + case["edge"])
        if case["edge"] == "huge_int" and case["sign"] == "+":
            try:
                fresh_parser().parse(text.replace("+1", "1", 1))
            except SyntaxError:
                return []
            return [Failure("edge:huge_int|sign_decides_acceptance", "%d digits: refused with a plus sign, accepted without" % case["digits"])]
        return []
    except Exception as exc:
        return [Failure("edge:%s|raises:%s" % (case["edge"], type(exc).__name__), "%r -> %r" % (text[:80], exc))]
    args = dict(RD.parsed_program(tree)[0][2])
    got = args.get("P")
    got = got[1] if case["where"] == "list_item" and isinstance(got, list) and len(got) == 3 else got
    got = got.get("k") if case["where"] == "tuple_value" and isinstance(got, dict) else got
    if type(got) is not type(want) or got != want:
        shown = repr(got)
        return [Failure("edge:%s|delivered_as:%s" % (case["edge"], type(got).__name__),
                        "%s... parsed to %s" % (text[:60], shown[:60] + ("..." if len(shown) > 60 else "")))]
    rec.label("edge_accepted:" + case["edge"])
    if case["edge"] == "huge_int" and case["sign"] == "+":
        # a plus sign does not add a digit: the numeral is accepted exactly when the same digits without a sign are
        try:
            fresh_parser().parse(text.replace("+1", "1", 1))
            return []
        except SyntaxError:
            return [Failure("edge:huge_int|sign_decides_acceptance", "%d digits: accepted with a plus sign, refused without" % case["digits"])]
    return []


# ------------------------------------------------------------------------------------ what was parsed before does not matter

HISTORY_V3 = [
    'A = Read(InFileName = data.csv, InFieldName = Elev)\nOut = Write(OutFileName = "out.csv", NewFieldName = n, OutFieldNames = [A])\n',
    "# only a comment\nX = Cmd(P = [1, 2.5, abc], Q = [k: v])",
]
HISTORY_V2 = [
    "READ(InFileName = data.csv, InFieldName = Elev)\nCVTTOFUZZY(InFieldName = Elev, NewFieldName = Fz)\n",
    "Named = READ(InFileName = data.csv, InFieldName = Elev)\nNOT(InFieldName = Named, OutFileName = o.csv)\n",
]


def history_cases():
    for first in ("v3", "v2"):
        for k in range(2):
            yield {"first": first, "k": k}


def check_history(case, rec):
    """Parser().parse(text) is a function of the text: parsing files of the other syntax in between (each with its own
    Parser) changes nothing in what a fresh Parser returns for the same text -- commands, arguments, values, version."""
    def snap(texts):
        out = []
        for t in texts:
            tree = fresh_parser().parse(t)
            out.append((RD.parsed_program(tree), getattr(tree, "version", None)))
        return out

    mine, other = (HISTORY_V3, HISTORY_V2) if case["first"] == "v3" else (HISTORY_V2, HISTORY_V3)
    before = snap(mine)
    fresh_parser().parse(other[case["k"]])
    after = snap(mine)
    rec.label("history:%s_first" % case["first"])
    rec.nontrivial_case(case)
    if before != after:
        i = [a != b for a, b in zip(before, after)].index(True)
        return [Failure("history|%s_file_parsed_differently_after_%s_file" % (case["first"], "v2" if case["first"] == "v3" else "v3"),
                        "%r: before %r, after %r" % (mine[i], before[i], after[i]))]
    return []


def check_reuse(case, rec):
    """One Parser object used for several files, among them a malformed one (rejected): what it returns for a
    well-formed file is what a fresh Parser returns for it."""
    parser = fresh_parser()
    texts = []
    for step in case["steps"]:
        if step.get("kind"):
            text = corrupt(step["prog"], step["kind"], step["pick"])
            if text is None:
                continue
            try:
                parser.parse(text)
            except SyntaxError:
                rec.label("reuse:after_rejected_file")
            except Exception:
                pass  # (the corruption part owns what a malformed file may raise)
            continue
        text = RD.render(step["prog"])[0]
        try:
            expected = RD.parsed_program(fresh_parser().parse(text))
        except Exception:
            continue  # (the round-trip part owns files a fresh parser does not take)
        try:
            got = RD.parsed_program(parser.parse(text))
        except Exception as exc:
            return [Failure("reuse|raises:%s" % type(exc).__name__, "file %d on a reused parser: %r\n%r" % (len(texts), exc, text[:300]))]
        texts.append(text)
        if got != expected:
            return [Failure("reuse|differs_from_fresh_parser", "file %d on a reused parser: %r, a fresh parser: %r\n%r" % (len(texts), got, expected, text[:300]))]
    rec.nontrivial_case(case)
    return []


@st.composite
def reuse_cases(draw):
    safe = RD.any_value(("id", "plain1", "id_plain"))
    steps = []
    for _ in range(draw(st.integers(2, 5))):
        step = {"prog": draw(RD.programs(safe, max_commands=4))}
        if draw(st.integers(0, 2)) == 0:
            step["kind"] = draw(st.sampled_from(CORRUPTIONS))
            step["pick"] = draw(st.integers(0, 50))
        steps.append(step)
    steps.append({"prog": draw(RD.programs(safe, max_commands=3))})
    return {"steps": steps}


PARTS = {"roundtrip": check_roundtrip, "corruption": check_corruption, "edge": check_edge, "history": check_history, "reuse": check_reuse}


def corruption_cases():
    safe_values = RD.any_value(("id", "plain1", "id_plain"))
    return st.builds(
        lambda prog, kind, pick: {"prog": prog, "kind": kind, "pick": pick},
        RD.programs(safe_values, max_commands=3), st.sampled_from(CORRUPTIONS), st.integers(0, 50))


def run_atheris(ctx, rec, runs):
    """Coverage-guided generation: libFuzzer (through atheris) feeds the Hypothesis strategy of abstract programs via
    `fuzz_one_input`, with the round-trip oracle inside the target; failing cases come back as JSON and are replayed
    through check_roundtrip here."""
    import glob
    import json
    import os
    import shutil
    import subprocess
    import sys
    import tempfile

    from ..core import VERIF_DIR

    deps = os.path.join(VERIF_DIR, ".deps")
    if not os.path.isdir(os.path.join(deps, "atheris")):
        rec.notes.append("atheris not installed in .deps: coverage-guided part skipped")
        return
    tmp = tempfile.mkdtemp(prefix="vcheck-c10-fuzz-")
    try:
        corpus, out = os.path.join(tmp, "corpus"), os.path.join(tmp, "out")
        os.makedirs(corpus)
        os.makedirs(out)
        # Hypothesis needs a few hundred bytes of choices per abstract program: start from long pseudo-random seeds
        # (derived from the run's seed) and switch off libFuzzer's gradual length control
        import hashlib

        for k in range(8):
            blob = b"".join(hashlib.sha256(("%d/%d/%d" % (ctx.hseed("atheris-corpus"), k, j)).encode()).digest() for j in range(48))
            with open(os.path.join(corpus, "seed%d" % k), "wb") as f:
                f.write(blob if k else bytes(1536))
        env = dict(os.environ, VCHECK_FUZZ_OUT=out, PYTHONPATH=os.environ.get("PYTHONPATH", "") + os.pathsep + deps)
        cmd = [sys.executable, "-W", "ignore", "-m", "vcheck.fuzz.roundtrip_target", corpus, "-runs=%d" % runs,
               "-seed=%d" % (ctx.hseed("atheris") % (2 ** 31 - 2) + 1), "-max_len=2048", "-len_control=0", "-artifact_prefix=" + out + os.sep,
               "-print_final_stats=1", "-timeout=120", "-rss_limit_mb=4096"]
        res = subprocess.run(cmd, cwd=VERIF_DIR, env=env, capture_output=True, text=True, timeout=7200)
        execs = 0
        for line in res.stderr.splitlines():
            if line.startswith("stat::number_of_executed_units:"):
                execs = int(line.split(":")[-1])
        rec.evaluated(execs)
        rec.parts["roundtrip/atheris_fuzz_one_input"] += execs
        rec.label("atheris_executions", n=execs)
        stats = os.path.join(out, "stats.json")
        if os.path.exists(stats):
            with open(stats) as f:
                st_ = json.load(f)
            rec.label("atheris_valid_cases", n=st_.get("cases", 0))
        if execs == 0:
            rec.notes.append("atheris campaign did not run: %s" % res.stderr[-300:].replace("\n", " | "))
        for path in sorted(glob.glob(os.path.join(out, "case-*.json")))[:5]:
            with open(path) as f:
                payload = json.load(f)
            for f_ in check_roundtrip(payload["case"], rec):
                if not rec.is_known(f_):
                    rec.add_failure(f_, payload["case"], "roundtrip")
    finally:
        shutil.rmtree(tmp, ignore_errors=True)


def run_shard(ctx, rec):
    # first, while this process has not parsed anything yet
    for case in history_cases():
        for f in run_check(check_history, case, rec):
            if not rec.is_known(f):
                rec.add_failure(f, case, "history")
    rec.parts["history/every_shard"] += 4
    drive(ctx, rec, "roundtrip", RD.programs(), check_roundtrip, ctx.n(3000, 80000), max_novel=8)
    drive(ctx, rec, "corruption", corruption_cases(), check_corruption, ctx.n(1500, 30000))
    drive_enum(ctx, rec, "edge", edge_cases(), check_edge, exhaustive=True)
    drive(ctx, rec, "reuse", reuse_cases(), check_reuse, ctx.n(600, 12000))
    if ctx.shard < (1 if ctx.quick else 8):
        run_atheris(ctx, rec, 1000 if ctx.quick else 60000)
