"""C12 -- models are accepted iff well-formed, and rejected before any side effect."""
from __future__ import annotations

import copy
import os
import shutil
import tempfile

from hypothesis import strategies as st

from .. import spec as SP
from ..core import sstr, Failure, drive, drive_enum
from ..gen import models as M
from ..ref import commands as R

ID = "C12"
LEVEL = "fault_enumeration"
DESIGN_REF = "DESIGN.md section 3, C12"
TECHNIQUE = "exhaustive producer x consumer x parameter matrix and single-fault injection at every position of generated valid models, against a well-formedness predicate computed from a frozen declaration table; execute-log and directory-snapshot oracle for 'rejected before any side effect'"
LEVEL_TEXT = (
    "(1) The declarations of all built-in commands are compared with a frozen table transcribed from the docs. (2) Every "
    "producer x consumer x result-parameter combination of the built-in commands (both I/O libraries) is built as a "
    "minimal model; it must be accepted exactly when the producer yields data of the required fuzziness (any result for "
    "PrintVars), otherwise rejected with ResultTypeNotValid / ResultNotFuzzy / ResultIsFuzzy naming the producer. (3) Into "
    "generated valid models (with writers placed first in the file) exactly one fault is injected at every applicable "
    "position: unknown command, duplicated result, each required parameter removed, an undeclared parameter added, each "
    "argument replaced by each wrong kind, each reference redirected to a missing name, to the wrong fuzziness and to a "
    "non-data producer; the specific error class and its attributes are checked. On every rejection the log of execute() "
    "calls must be empty and the working directory unchanged. The matrix is complete; fault positions are complete per "
    "drawn model; models are sampled."
    " A paths part spells the reader's and writer's file names in nine ways (./, ../, sibling and parent directories, dot-files, blanks and non-ASCII directories, absolute) with the file present, absent, or absent while a same-named file sits in the working directory, under two current directories."
)
LEVEL_TEXT += ' Added later: an edit part (a finished program whose producer is deleted, or deleted and re-added with the other fuzziness) and a retry part (first attempt fails for a reason outside the model, repaired, the same Program run again: accepted, output written).'
LEVEL_NOTE = "Cells the docs leave open are not asserted and counted: list/tuple/number given for a String parameter (coerced to text), a number other than 0/1 given for a Boolean."
RULE = (
    "Cases: (decl) one per command; (pair) producer, consumer, parameter, library; (fault) valid model + fault kind + "
    "position. Oracle: well-formedness predicate over vcheck/spec.py => accept, or the expected error class with "
    "attributes; on rejection: empty execute log, identical directory listing (names, sizes, mtimes). Non-trivial: a "
    "rejected model containing at least one valid writer placed textually before the fault, or an accepted model "
    "with >= 4 commands; distinct = digest of the case."
)
ASSUMPTIONS = [
    "accepted = Program.from_source and run() raise none of the well-formedness errors; execute-time data errors are not rejections",
    "exactly one fault per model, so the expected error is unique (where two rules are violated at once either class is accepted)",
]

WELLFORMEDNESS_ERRORS = ("CommandDoesNotExist", "DuplicateResult", "MissingParameters", "NoSuchParameter", "ParameterNotValid",
                         "ResultDoesNotExist", "ResultTypeNotValid", "ResultNotFuzzy", "ResultIsFuzzy", "PathDoesNotExist",
                         "InvalidRelativePath")

# ----------------------------------------------------------------------------------- execute log

EXEC_LOG = []
_WRAPPED = set()


def install_wrappers():
    """Wrap execute() of every registered command class once per process (classes are stable objects)."""
    from mpilot.commands import Command
    from mpilot.program import EEMS_CSV_LIBRARIES, EEMS_NETCDF_LIBRARIES, Program

    Program(libraries=EEMS_CSV_LIBRARIES)
    Program(libraries=EEMS_NETCDF_LIBRARIES)
    for info in Command.get_commands():
        cls = info.command
        if cls in _WRAPPED or "execute" not in cls.__dict__:
            continue
        orig = cls.__dict__["execute"]

        def make(orig, cls):
            def execute(self, **kwargs):
                EXEC_LOG.append((cls.__name__, self.result_name))
                return orig(self, **kwargs)
            return execute

        cls.execute = make(orig, cls)
        _WRAPPED.add(cls)


def listing(d):
    out = []
    for root, dirs, files in os.walk(d):
        for sub in sorted(dirs):  # directories count: a rejected model creates nothing
            out.append((os.path.relpath(os.path.join(root, sub), d) + os.sep, 0, 0))
        for f in sorted(files):
            p = os.path.join(root, f)
            s = os.stat(p)
            out.append((os.path.relpath(p, d), s.st_size, s.st_mtime_ns))
    return sorted(out)


# ----------------------------------------------------------------------------------- model text

def fmt(v):
    if isinstance(v, dict):
        if "r" in v:
            return v["r"]
        if "s" in v:
            return '"%s"' % v["s"]
        if "t" in v:
            return "[" + ", ".join('"%s": "%s"' % kv for kv in v["t"].items()) + "]"
    if isinstance(v, list):
        return "[" + ", ".join(fmt(x) for x in v) + "]"
    return M.fmt_value(v)


def text_of(cmds):
    return "\n".join("%s = %s(%s)" % (c["name"], c["cmd"], ", ".join("%s = %s" % (k, fmt(v)) for k, v in c["args"])) for c in cmds) + "\n"


CANON = {
    "Weights": lambda n: [1] * n,
    "RawValues": lambda n: [1, 2], "NormalValues": lambda n: [0.5, -0.5], "FuzzyValues": lambda n: [0.5, -0.5],
    "DefaultNormalValue": lambda n: 0, "DefaultFuzzyValue": lambda n: 0, "IgnoreZeros": lambda n: {"r": "false"},
    "ZScoreValues": lambda n: [-1, 1], "Threshold": lambda n: 1, "Direction": lambda n: {"s": "LowToHigh"},
    "TruestOrFalsest": lambda n: {"s": "Truest"}, "NumberToConsider": lambda n: 1, "TrueThreshold": lambda n: 1,
    "FalseThreshold": lambda n: 0,
}
MEAN_TO_MID = [-1, -0.5, 0, 0.5, 1]


def canonical(cmd, name, entry, refs, io, overrides=None):
    """A valid instance of `cmd` whose result parameters take `refs` = {"nf": name, "fz": name}."""
    args = []
    for p, kind in entry[3].items():
        b = SP.base(kind)
        if overrides and p in overrides:
            args.append([p, overrides[p]])
            continue
        if b.startswith("data:") or b.startswith("datas:") or b == "results":
            want = b.split(":")[1] if ":" in b else "nf"
            target = {"r": refs["fz" if want == "fz" else "nf"]}
            if b.startswith("datas") or b == "results":
                args.append([p, [target, target] if cmd == "FuzzyXOr" else [target]])
            else:
                args.append([p, target])
        elif SP.optional(kind):
            continue
        elif p in ("NormalValues", "FuzzyValues") and "MeanToMid" in cmd:
            args.append([p, MEAN_TO_MID])
        elif p in ("NormalValues", "FuzzyValues") and "CurveZScore" in cmd:
            args.append([p, [-1, 1]])
        elif p in CANON:
            args.append([p, CANON[p](1)])
        elif p == "InFileName":
            args.append([p, {"s": "input.csv" if io == SP.CSV else "input.nc"}])
        elif p == "InFieldName":
            args.append([p, {"s": "a"}])
        elif p == "OutFileName":
            args.append([p, {"s": "%s_out.%s" % (name, "csv" if io == SP.CSV else "nc")}])
        elif p == "DimensionFileName":
            args.append([p, {"s": "input.nc"}])
        elif p == "DimensionFieldName":
            args.append([p, {"s": "a"}])
        else:
            raise KeyError((cmd, p))
    if cmd == "EEMSRead" and io == SP.NETCDF:
        args.append(["DataType", {"s": "Float"}])
    return {"name": name, "cmd": cmd, "args": args}


def base_commands(io):
    t = SP.table(io)
    src = canonical("EEMSRead", "Src", t["EEMSRead"], {}, io)
    fz = {"name": "Fz", "cmd": "CvtToFuzzy", "args": [["InFieldName", {"r": "Src"}], ["TrueThreshold", 3], ["FalseThreshold", 0]]}
    return [src, fz]


def prepare_dir(tmp, io):
    with open(os.path.join(tmp, "input.csv"), "w") as f:
        f.write("a,b\n0.5,1\n1.5,2\n0,3\n3,1\n2,0\n")
    if io == SP.NETCDF:
        import numpy
        from netCDF4 import Dataset

        with Dataset(os.path.join(tmp, "input.nc"), "w") as ds:
            ds.createDimension("x", 5)
            v = ds.createVariable("x", "f8", ("x",))
            v[:] = numpy.arange(5.0)
            a = ds.createVariable("a", "f8", ("x",))
            a[:] = numpy.array([0.5, 1.5, 0.0, 3.0, 2.0])


def libraries(io):
    from mpilot.program import EEMS_CSV_LIBRARIES, EEMS_NETCDF_LIBRARIES

    return EEMS_CSV_LIBRARIES if io == SP.CSV else EEMS_NETCDF_LIBRARIES


def run_model(text, tmp, io):
    """-> ("ok", None) | ("error", exc); EXEC_LOG and directory listing are inspected by the caller."""
    from mpilot.program import Program

    from ..history import maybe_earlier_v2_load

    maybe_earlier_v2_load(text)
    del EXEC_LOG[:]
    try:
        p = Program.from_source(text, libraries=libraries(io), working_dir=tmp)
        p.run()
        return "ok", None
    except Exception as exc:
        return "error", exc


def attr_ok(exc, attrs):
    bad = []
    for k, v in attrs.items():
        got = getattr(exc, k, "<missing>")
        if isinstance(v, set):
            got = set(got) if isinstance(got, (set, list, tuple)) else got
        if got != v:
            bad.append("%s=%r (expected %r)" % (k, got, v))
    return bad


def judge(case_id, text, tmp, io, expect, rec, sig, writer_first=False):
    """expect: ("accept",) | ("reject", [class names], attrs dict) | ("unasserted",)"""
    before = listing(tmp)
    status, exc = run_model(text, tmp, io)
    fails = []
    kind = type(exc).__name__ if exc is not None else None
    if expect[0] == "unasserted":
        rec.exclude("unasserted_cell")
        return fails
    if expect[0] == "accept":
        if status == "error" and kind in WELLFORMEDNESS_ERRORS:
            fails.append(Failure("%s|wellformed_rejected:%s" % (sig, kind), "%s\n%s" % (sstr(exc)[:300], text)))
        return fails
    classes, attrs = expect[1], expect[2]
    if status == "ok":
        fails.append(Failure("%s|illformed_accepted" % sig, "expected %s for\n%s" % ("/".join(classes), text)))
        return fails
    if kind not in classes:
        fails.append(Failure("%s|wrong_error:%s" % (sig, kind), "expected %s, got %s: %s\n%s" % ("/".join(classes), kind, sstr(exc)[:200], text)))
    else:
        bad = attr_ok(exc, attrs)
        if bad:
            fails.append(Failure("%s|wrong_attributes:%s" % (sig, kind), "%s\n%s" % ("; ".join(bad), text)))
        try:
            str(exc)
        except Exception as e2:
            fails.append(Failure("%s|str_raises:%s" % (sig, type(e2).__name__), repr(e2)))
    if EXEC_LOG:
        fails.append(Failure("%s|executed_before_rejection" % sig, "execute() calls before the rejection: %r\n%s" % (EXEC_LOG[:5], text)))
    after = listing(tmp)
    if after != before:
        fails.append(Failure("%s|side_effect_before_rejection" % sig, "directory changed: %r -> %r\n%s" % (
            [x[0] for x in before], [x[0] for x in after], text)))
    return fails


# ----------------------------------------------------------------------------------- (1) declarations

def check_decl(case, rec):
    from mpilot.program import Program

    io, name = case["io"], case["cmd"]
    prog = Program(libraries=libraries(io))
    t = SP.table(io)
    cls = prog.command_library.get(name)
    rec.label("declaration")
    rec.nontrivial_case(case)
    if name == "<set>":
        got, want = sorted(prog.command_library), sorted(t)
        if got != want:
            return [Failure("decl|command_set", "library %s: commands %r, table %r" % (io, sorted(set(got) ^ set(want)), "symmetric difference"))]
        return []
    if cls is None:
        return [Failure("decl|%s|missing" % name, "command not found in %s" % io)]
    want = (t[name][1], t[name][2], t[name][3])
    got = SP.declared(cls)
    if got != want:
        diff = [k for k in set(got[2]) | set(want[2]) if got[2].get(k) != want[2].get(k)]
        return [Failure("decl|%s|differs" % name, "declared %r, table %r (parameters differing: %r)" % (got[:2], want[:2], diff))]
    return []


def decl_cases():
    for io in (SP.CSV, SP.NETCDF):
        yield {"io": io, "cmd": "<set>"}
        for name in sorted(SP.table(io)):
            yield {"io": io, "cmd": name}


# ----------------------------------------------------------------------------------- (2) producer x consumer

def pair_cases():
    for io in (SP.CSV, SP.NETCDF):
        t = SP.table(io)
        for prod in sorted(t):
            for cons in sorted(t):
                for p, kind in sorted(t[cons][3].items()):
                    b = SP.base(kind)
                    if b.startswith("data:") or b.startswith("datas:") or b == "results":
                        if io == SP.NETCDF and not (prod.startswith("EEMS") or cons.startswith("EEMS")):
                            continue  # the non-I/O pairs are identical in both libraries
                        yield {"io": io, "producer": prod, "consumer": cons, "param": p}


def check_pair(case, rec):
    io = case["io"]
    t = SP.table(io)
    prod, cons, p = case["producer"], case["consumer"], case["param"]
    cmds = base_commands(io)
    refs = {"nf": "Src", "fz": "Fz"}
    cmds.append(canonical(prod, "P", t[prod], refs, io))
    kind = SP.base(t[cons][3][p])
    target = {"r": "P"}
    value = [target, target] if (kind.startswith("datas") or kind == "results") and cons == "FuzzyXOr" else (
        [target] if kind.startswith("datas") or kind == "results" else target)
    cmds.append(canonical(cons, "C", t[cons], refs, io, overrides={p: value}))
    produces, pfz = t[prod][1], t[prod][2]
    want = kind.split(":")[1] if ":" in kind else "any"
    if kind == "results":
        expect = ("accept",)
    else:
        errs = []
        if want == "fz" and not pfz:
            errs.append("ResultNotFuzzy")
        if want == "nf" and pfz:
            errs.append("ResultIsFuzzy")
        if produces != "data":
            errs.append("ResultTypeNotValid")
        expect = ("reject", errs, {"result": "P"}) if errs else ("accept",)
    tmp = tempfile.mkdtemp(prefix="vcheck-c12-")
    try:
        prepare_dir(tmp, io)
        sig = "pair|%s|%s->%s" % (io.split(".")[-1], prod if produces != "data" else "data:" + ("fz" if pfz else "nf"), kind)
        fails = judge(case, text_of(cmds), tmp, io, expect, rec, sig)
    finally:
        shutil.rmtree(tmp, ignore_errors=True)
    rec.label("pair:" + expect[0])
    rec.nontrivial_case(case)
    if expect[0] == "reject":
        rec.label("pair_rejected:" + "/".join(expect[1]), sample=case)
    return fails


# ----------------------------------------------------------------------------------- (3) single faults

def model_commands(model):
    """Typed model (vcheck/gen/models.py) -> command list in textual order, writers first."""
    cmds = []
    for i in model["order"]:
        node = model["nodes"][i]
        args = []
        if node["cmd"] == "EEMSRead":
            spec = model["cols"][node["col"]]
            args = [["InFileName", {"s": "input.csv"}], ["InFieldName", {"s": node["col"]}]]
            missing = node["read_missing"] if node.get("own_missing") else spec.get("missing")
            if missing is not None:
                args.append(["MissingVal", missing])
            args.append(["DataType", {"s": "Integer" if spec["dtype"] == "int64" else "Float"}])
        else:
            from .. import arr as A

            pn = A.INPUT_PARAM[node["cmd"]]
            if node["cmd"] in R.NARY:
                args.append([pn[0], [{"r": x} for x in node["inputs"]]])
            else:
                for p, r in zip(pn, node["inputs"]):
                    args.append([p, {"r": r}])
            for k, v in node["params"].items():
                if isinstance(v, str):
                    v = {"s": v}
                elif isinstance(v, bool):
                    v = {"r": "true" if v else "false"}
                args.append([k, v])
            if node.get("meta"):
                args.insert(node.get("meta_pos", len(args)) % (len(args) + 1), ["Metadata", {"t": node["meta"]}])
        cmds.append({"name": node["name"], "cmd": node["cmd"], "args": M.permute_args(args, node.get("arg_perm"))})
    first = [n["name"] for n in model["nodes"] if n["cmd"] == "EEMSRead"][0]
    writers = [
        {"name": "W0", "cmd": "EEMSWrite", "args": [["OutFileName", {"s": "written.csv"}], ["OutFieldNames", [{"r": first}]]]},
        {"name": "W1", "cmd": "PrintVars", "args": [["InFieldNames", [{"r": first}]], ["OutFileName", {"s": "printed.txt"}]]},
    ]
    return writers + cmds


WRONG = {
    "number": [("word", {"s": "abc"}), ("list", [1, 2]), ("tuple", {"t": {"k": "v"}}), ("empty_text", {"s": ""}), ("empty_list", [])],
    "numbers": [("number", 3), ("word", {"s": "abc"}), ("tuple", {"t": {"k": "v"}}), ("list_of_words", [{"s": "x"}, {"s": "y"}]),
                ("zero", 0), ("zero_decimal", 0.0), ("empty_text", {"s": ""})],
    "boolean": [("word", {"s": "maybe"}), ("list", [1]), ("decimal", 0.5), ("empty_text", {"s": ""}), ("empty_list", [])],
    "data": [("number", 5), ("list", [1]), ("missing_name", {"r": "Nowhere"}), ("zero", 0), ("empty_list", [])],
    "datas": [("number", 5), ("name_not_list", None), ("list_with_number", None), ("list_with_missing_name", None),
              ("zero", 0), ("zero_decimal", 0.0), ("empty_text", {"s": ""})],
    "path": [("number", 5), ("list", [{"s": "a.csv"}]), ("zero", 0), ("empty_list", [])],
    "path!": [("number", 5), ("list", [{"s": "a.csv"}]), ("missing_file", {"s": "no_such_file.csv"}), ("zero", 0), ("empty_list", [])],
    "datatype": [("word", {"s": "Double"}), ("number", 5), ("list", [{"s": "Float"}]), ("zero", 0), ("empty_text", {"s": ""})],
    "tuple": [("number", 5), ("word", {"s": "abc"}), ("list", [1, 2]), ("zero", 0), ("empty_text", {"s": ""})],
    "string": [("number", 5), ("list", [1])],
}


def faults_of(cmds, io):
    """Yield (faulted command list, fault label, expectation) for every applicable position."""
    t = SP.table(io)
    fuzzy_names = [c["name"] for c in cmds if c["cmd"] in t and t[c["cmd"]][2]]
    plain_names = [c["name"] for c in cmds if c["cmd"] in t and t[c["cmd"]][1] == "data" and not t[c["cmd"]][2]]
    for i, c in enumerate(cmds):
        entry = t[c["cmd"]]
        # unknown command
        f = copy.deepcopy(cmds)
        f[i]["cmd"] = c["cmd"] + "X"
        yield f, "unknown_command", ("reject", ["CommandDoesNotExist"], {"name": c["cmd"] + "X"})
        # duplicated result name (of an earlier command)
        if i > 0:
            f = copy.deepcopy(cmds)
            f[i]["name"] = cmds[i - 1]["name"]
            yield f, "duplicate_result", ("reject", ["DuplicateResult"], {"result": cmds[i - 1]["name"]})
        # each required parameter removed
        for j, (p, v) in enumerate(c["args"]):
            if p in entry[3] and not SP.optional(entry[3][p]):
                f = copy.deepcopy(cmds)
                del f[i]["args"][j]
                yield f, "missing_required", ("reject", ["MissingParameters"], {"parameters": {p}})
        # an undeclared parameter added
        f = copy.deepcopy(cmds)
        f[i]["args"].insert(len(c["args"]) // 2, ["Bogus", 1])
        yield f, "undeclared_param", ("reject", ["NoSuchParameter"], {"parameter": "Bogus"})
        # each argument replaced by each wrong kind
        for j, (p, v) in enumerate(c["args"]):
            kind = "tuple" if p == "Metadata" else SP.base(entry[3][p])
            group = kind.split(":")[0]
            if group == "results":
                group = "datas"
            for label, repl in WRONG.get(group, []):
                f = copy.deepcopy(cmds)
                expect = ("reject", ["ParameterNotValid"], {})
                if label == "name_not_list":
                    repl = v[0] if v else None
                    if repl is None:
                        continue
                elif label == "list_with_number":
                    repl = list(v) + [7]
                elif label == "list_with_missing_name":
                    repl = list(v) + [{"r": "Nowhere"}]
                    expect = ("reject", ["ResultDoesNotExist"], {"result": "Nowhere"})
                elif label == "missing_name":
                    expect = ("reject", ["ResultDoesNotExist"], {"result": "Nowhere"})
                elif label == "missing_file":
                    expect = ("reject", ["PathDoesNotExist"], {})
                elif group == "string":
                    expect = ("unasserted",)
                elif group == "boolean" and label == "decimal":
                    expect = ("reject", ["ParameterNotValid"], {})
                f[i]["args"][j][1] = repl
                yield f, "wrong_kind:%s<-%s" % (group, label), expect
            # references redirected to the wrong fuzziness / a non-data producer
            if group in ("data", "datas") and kind != "results":
                want = kind.split(":")[1]
                others = plain_names if want == "fz" else (fuzzy_names if want == "nf" else [])
                others = [o for o in others if o != c["name"]]
                if others:
                    f = copy.deepcopy(cmds)
                    tgt = {"r": others[(i + j) % len(others)]}
                    f[i]["args"][j][1] = [tgt] if group == "datas" else tgt
                    cls = "ResultNotFuzzy" if want == "fz" else "ResultIsFuzzy"
                    yield f, "fuzziness_mismatch", ("reject", [cls], {"result": tgt["r"]})
                f = copy.deepcopy(cmds)
                tgt = {"r": "W1" if c["name"] != "W1" else "W0"}
                f[i]["args"][j][1] = [tgt] if group == "datas" else tgt
                classes = ["ResultTypeNotValid"] + (["ResultNotFuzzy"] if want == "fz" else [])
                yield f, "non_data_producer", ("reject", classes, {"result": tgt["r"]})


def check_fault(case, rec):
    io = SP.CSV
    cmds = model_commands(case["model"])
    all_faults = list(faults_of(cmds, io))
    fails = []
    tmp = tempfile.mkdtemp(prefix="vcheck-c12-")
    try:
        M.write_table(case["model"], os.path.join(tmp, "input.csv"))
        # the unfaulted model must be accepted
        rec.label("valid_model")
        fails.extend(judge(case, text_of(cmds), tmp, io, ("accept",), rec, "valid_model"))
        if len(cmds) >= 4 and not fails:
            rec.nontrivial_case(["accepted", case["model"]])
        picks = range(len(all_faults)) if case.get("all") else sorted(set(k % len(all_faults) for k in case["picks"]))
        for k in picks:
            fcmds, label, expect = all_faults[k]
            for name in ("written.csv", "printed.txt"):
                if os.path.exists(os.path.join(tmp, name)):
                    os.remove(os.path.join(tmp, name))
            text = text_of(fcmds)
            rec.evaluated()
            fs = judge(case, text, tmp, io, expect, rec, "fault:" + label)
            rec.label("fault:" + label.split("<-")[0], sample={"fault": label, "text": text} if len(text) < 500 else None)
            if expect[0] == "reject":
                rec.nontrivial_case(["fault", text])
            fails.extend(fs)
            if len(fails) > 8:
                break
    finally:
        shutil.rmtree(tmp, ignore_errors=True)
    return fails


def api_value(v):
    """Command-list value -> Python value for Program.add_command."""
    if isinstance(v, dict):
        if "r" in v:
            return v["r"]
        if "s" in v:
            return v["s"]
        if "t" in v:
            return dict(v["t"])
    if isinstance(v, list):
        return [api_value(x) for x in v]
    return v


def check_extend(case, rec):
    """A program that has already run successfully is extended through add_command with one valid writer and one
    ill-formed command, and run again: the rejection must still precede every further execution and write nothing."""
    from mpilot.program import Program

    io = SP.CSV
    cmds = model_commands(case["model"])
    faults = [f for f in faults_of(cmds, io) if f[1] not in ("unknown_command", "duplicate_result", "missing_required", "undeclared_param")
              and f[2][0] == "reject"]
    if not faults:
        return []
    fcmds, label, expect = faults[case["picks"][0] % len(faults)]
    # the faulted command is the one that differs from the valid list
    bad = [fc for fc, c in zip(fcmds, cmds) if fc != c]
    if len(bad) != 1 or len(fcmds) != len(cmds):
        rec.exclude("extend:fault_not_expressible_as_one_added_command")
        return []
    bad = dict(bad[0], name="AddedBad")
    if label == "non_data_producer" and any(isinstance(v, dict) and v.get("r") == bad["name"] for _, v in bad["args"]):
        return []
    first = [n["name"] for n in case["model"]["nodes"] if n["cmd"] == "EEMSRead"][0]
    tmp = tempfile.mkdtemp(prefix="vcheck-c12-")
    try:
        M.write_table(case["model"], os.path.join(tmp, "input.csv"))
        try:
            prog = Program.from_source(text_of(cmds), libraries=libraries(io), working_dir=tmp)
            prog.run()
        except Exception as exc:
            rec.exclude("extend:base_model_does_not_run:%s" % type(exc).__name__)
            return []
        del EXEC_LOG[:]
        before = listing(tmp)
        lib = prog.command_library
        sig = "extend:" + label.split("<-")[0]
        try:
            prog.add_command(lib["EEMSWrite"], "AddedWriter", {"OutFileName": "added.csv", "OutFieldNames": [first]})
            prog.add_command(lib[bad["cmd"]], bad["name"], {k: api_value(v) for k, v in bad["args"]})
            prog.run()
            return [Failure(sig + "|illformed_accepted", "extended program accepted; expected %s\nadded: %r" % ("/".join(expect[1]), bad))]
        except Exception as exc:
            kind = type(exc).__name__
        rec.label("extend:" + label.split("<-")[0])
        rec.nontrivial_case(["extend", case["model"], label])
        fails = []
        if kind not in expect[1] and kind not in WELLFORMEDNESS_ERRORS:
            fails.append(Failure(sig + "|wrong_error:%s" % kind, "expected %s for added %r" % ("/".join(expect[1]), bad)))
        if EXEC_LOG:
            fails.append(Failure(sig + "|executed_before_rejection", "execute() calls after extending a finished program with an "
                                 "ill-formed command: %r\nadded: %r" % (EXEC_LOG[:4], bad)))
        if listing(tmp) != before:
            fails.append(Failure(sig + "|side_effect_before_rejection", "files written although the extended program was rejected: %r" % (
                sorted(set(x[0] for x in listing(tmp)) - set(x[0] for x in before)),)))
        return fails
    finally:
        shutil.rmtree(tmp, ignore_errors=True)


def check_edit(case, rec):
    """A program that has already run successfully is edited the documented way -- a command is removed from
    program.commands, or removed and added again under its name as a command of the other fuzziness -- and run again:
    every consumer of that result now refers to something that does not exist / has the wrong fuzziness, and the
    model is rejected before anything executes."""
    from mpilot.program import Program

    io = SP.CSV
    model = case["model"]
    cmds = model_commands(model)
    by_name = {n["name"]: n for n in model["nodes"]}
    consumers = {}
    for n in model["nodes"]:
        for r in n.get("inputs", []):
            consumers.setdefault(r, []).append(n)
    first = [n["name"] for n in model["nodes"] if n["cmd"] == "EEMSRead"][0]
    mode = ("delete", "replace")[case["picks"][1] % 2]
    cands = sorted(k for k in consumers if mode == "delete" or by_name[k]["cmd"] != "EEMSRead")
    if mode == "delete" and first not in cands:
        cands.append(first)  # the two writers of every model consume the first column read
    if not cands:
        rec.exclude("edit:no_consumed_result")
        return []
    victim = cands[case["picks"][0] % len(cands)]
    was_fuzzy = by_name[victim]["cmd"] in R.FUZZY
    if mode == "delete":
        expect = ["ResultDoesNotExist"]
    else:
        strict = [c for c in consumers[victim] if c["cmd"] != "Copy"]
        if not strict:
            rec.exclude("edit:replacement_keeps_the_model_well_formed")
            return []
        expect = ["ResultNotFuzzy"] if was_fuzzy else ["ResultIsFuzzy"]
    tmp = tempfile.mkdtemp(prefix="vcheck-c12-")
    try:
        M.write_table(model, os.path.join(tmp, "input.csv"))
        try:
            prog = Program.from_source(text_of(cmds), libraries=libraries(io), working_dir=tmp)
            prog.run()
        except Exception as exc:
            rec.exclude("edit:base_model_does_not_run:%s" % type(exc).__name__)
            return []
        for n in range(case["picks"][2] % 2):
            prog.run()  # (a finished program may be run any number of times)
        del EXEC_LOG[:]
        before = listing(tmp)
        lib = prog.command_library
        sig = "edit:%s:%s" % (mode, "fuzzy" if was_fuzzy else "plain")
        try:
            del prog.commands[victim]
            if mode == "replace":
                col = sorted(model["cols"])[0]
                if was_fuzzy:
                    prog.add_command(lib["EEMSRead"], victim, {"InFileName": "input.csv", "InFieldName": col})
                else:
                    prog.add_command(lib["CvtToFuzzy"], victim, {"InFieldName": first, "TrueThreshold": 1, "FalseThreshold": 0})
            prog.add_command(lib["EEMSWrite"], "AddedWriter", {"OutFileName": "added.csv", "OutFieldNames": [first if victim != first else sorted(by_name)[0]]})
            prog.run()
            return [Failure(sig + "|illformed_accepted", "%s of %s accepted; expected %s\n%s" % (mode, victim, "/".join(expect), text_of(cmds)))]
        except Exception as exc:
            kind = type(exc).__name__
        rec.label(sig)
        rec.nontrivial_case(["edit", model, mode, victim])
        fails = []
        if kind not in expect and kind not in WELLFORMEDNESS_ERRORS:
            fails.append(Failure(sig + "|wrong_error:%s" % kind, "expected %s after %s of %s\n%s" % ("/".join(expect), mode, victim, text_of(cmds))))
        if EXEC_LOG:
            fails.append(Failure(sig + "|executed_before_rejection", "execute() calls after %s of %s: %r\n%s" % (mode, victim, EXEC_LOG[:4], text_of(cmds))))
        if listing(tmp) != before:
            fails.append(Failure(sig + "|side_effect_before_rejection", "files written although the edited program was rejected: %r" % (
                sorted(set(x[0] for x in listing(tmp)) - set(x[0] for x in before)),)))
        return fails
    finally:
        shutil.rmtree(tmp, ignore_errors=True)


def check_retry(case, rec):
    """A well-formed model whose first attempt fails for a reason outside the model -- a cell of the table that is no
    number, or a result looked at before the command it refers to was added -- is accepted, runs and writes its output
    once the cause is repaired and the same Program object is run again: acceptance depends on the model alone."""
    from mpilot.exceptions import MPilotError
    from mpilot.program import Program

    io = SP.CSV
    model = case["model"]
    cmds = model_commands(model)
    mode = ("bad_cell", "late_producer")[case["picks"][1] % 2]
    tmp = tempfile.mkdtemp(prefix="vcheck-c12-")
    try:
        M.write_table(model, os.path.join(tmp, "input.csv"))
        try:
            Program.from_source(text_of(cmds), libraries=libraries(io), working_dir=tmp).run()
        except Exception as exc:
            rec.exclude("retry:base_model_does_not_run:%s" % type(exc).__name__)
            return []
        for name in ("written.csv", "printed.txt"):
            if os.path.exists(os.path.join(tmp, name)):
                os.remove(os.path.join(tmp, name))
        sig = "retry:" + mode
        if mode == "bad_cell":
            prog = Program.from_source(text_of(cmds), libraries=libraries(io), working_dir=tmp)
            path = os.path.join(tmp, "input.csv")
            with open(path) as f:
                good = f.read()
            lines = good.split("\n")
            lines[1] = ",".join(["n/a"] * len(lines[1].split(",")))
            with open(path, "w") as f:
                f.write("\n".join(lines))
            try:
                prog.run()
                return []  # (no command reads the table: nothing to repair)
            except MPilotError:
                pass
            with open(path, "w") as f:
                f.write(good)
        else:
            # the model assembled through add_command, readers last; a consumer is looked at before its input exists
            prog = Program(libraries=libraries(io), working_dir=tmp)
            lib = prog.command_library
            later = [c for c in cmds if c["cmd"] == "EEMSRead"]
            early = [c for c in cmds if c["cmd"] != "EEMSRead"]
            for c in early:
                prog.add_command(lib[c["cmd"]], c["name"], {k: api_value(v) for k, v in c["args"]})
            try:
                prog.commands[early[case["picks"][0] % len(early)]["name"]].result
            except MPilotError:
                pass
            for c in later:
                prog.add_command(lib[c["cmd"]], c["name"], {k: api_value(v) for k, v in c["args"]})
        rec.label(sig)
        rec.nontrivial_case(["retry", model, mode])
        try:
            prog.run()
        except Exception as exc:
            return [Failure(sig + "|wellformed_rejected_after_repair:%s" % type(exc).__name__, "%s\n%s" % (sstr(exc)[:300], text_of(cmds)))]
        missing = [n for n in ("written.csv", "printed.txt") if not os.path.exists(os.path.join(tmp, n))]
        if missing:
            return [Failure(sig + "|accepted_but_no_output", "not written: %r\n%s" % (missing, text_of(cmds)))]
        return []
    finally:
        shutil.rmtree(tmp, ignore_errors=True)


@st.composite
def fault_cases(draw, exhaustive_positions=True):
    model = draw(M.typed_models(max_nodes=6, clean=True))
    return {"model": model, "all": exhaustive_positions, "picks": draw(st.lists(st.integers(0, 10000), min_size=8, max_size=8))}


# ------------------------------------------------------------------------------------ where the files are

PATH_FORMS = {
    # spelling relative to the working directory (a sub-directory `wd` of the scratch directory) -> where that really is
    "plain": ("input.csv", "wd/input.csv"),
    "dot_slash": ("./input.csv", "wd/input.csv"),
    "sub_dir": ("sub dir/input.csv", "wd/sub dir/input.csv"),
    "through_parent": ("../wd/input.csv", "wd/input.csv"),
    "sibling": ("../other/input.csv", "other/input.csv"),
    "parent": ("../input.csv", "input.csv"),
    "dot_file": (".input.csv", "wd/.input.csv"),
    "non_ascii": ("d\u00e9p\u00f4t/input.csv", "wd/d\u00e9p\u00f4t/input.csv"),
    "absolute": (None, "elsewhere/input.csv"),
}


def path_cases():
    for where in ("results/out.csv", "results/run1/out.csv", "../fresh/out.csv"):
        for fault in ("dangling_in_writer", "dangling_later", "wrong_kind_later"):
            yield {"form": "output_folder_missing", "out": where, "fault": fault, "present": "there", "cwd": "elsewhere"}
    for form in sorted(PATH_FORMS):
        for present in ("there", "absent", "absent_but_same_name_in_wd"):
            for cwd in ("elsewhere", "wd"):
                if present == "absent_but_same_name_in_wd" and PATH_FORMS[form][1] == "wd/input.csv":
                    continue
                yield {"form": form, "present": present, "cwd": cwd}


def check_output_folder(case, rec):
    """The writer's file is to go into a folder that does not exist; the model has a fault that is found when the model
    is validated: it is rejected, and no folder has appeared."""
    from mpilot.program import EEMS_CSV_LIBRARIES, Program

    tmp = tempfile.mkdtemp(prefix="vcheck-c12-")
    try:
        wd = os.path.join(tmp, "wd")
        os.makedirs(wd)
        with open(os.path.join(wd, "input.csv"), "w") as f:
            f.write("a\n1\n2\n")
        lines = ['R = EEMSRead(InFileName = "input.csv", InFieldName = a)']
        fields = "[R, Nowhere]" if case["fault"] == "dangling_in_writer" else "[R]"
        lines.append('W = EEMSWrite(OutFileName = "%s", OutFieldNames = %s)' % (case["out"], fields))
        if case["fault"] == "dangling_later":
            lines.append("Z = Copy(InFieldName = Nowhere)")
        elif case["fault"] == "wrong_kind_later":
            lines.append("Z = CvtToFuzzy(InFieldName = R, TrueThreshold = [1, 2])")
        text = "\n".join(lines) + "\n"
        before = listing(tmp)
        del EXEC_LOG[:]
        sig = "paths|output_folder_missing|%s" % case["fault"]
        rec.label("paths:output_folder_missing")
        rec.nontrivial_case(case)
        try:
            Program.from_source(text, libraries=EEMS_CSV_LIBRARIES, working_dir=wd).run()
            return [Failure(sig + "|illformed_accepted", text)]
        except Exception as exc:
            if type(exc).__name__ not in ("ResultDoesNotExist", "ParameterNotValid"):
                return [Failure(sig + "|wrong_error:%s" % type(exc).__name__, sstr(exc)[:300])]
        if EXEC_LOG or listing(tmp) != before:
            return [Failure(sig + "|side_effect_before_rejection", "executed %r; new in the directory: %r" % (
                EXEC_LOG[:3], sorted(set(listing(tmp)) - set(before))))]
        return []
    finally:
        shutil.rmtree(tmp, ignore_errors=True)


def check_paths(case, rec):
    """A model is accepted exactly when the file its reader names exists -- relative names resolved against the working
    directory, whatever the process's current directory is -- and a rejected model writes nothing; an accepted one writes
    its output where the writer's path says."""
    from mpilot.program import EEMS_CSV_LIBRARIES, Program

    if case["form"] == "output_folder_missing":
        return check_output_folder(case, rec)
    spelled, real = PATH_FORMS[case["form"]]
    tmp = tempfile.mkdtemp(prefix="vcheck-c12-")
    cwd = os.getcwd()
    try:
        wd = os.path.join(tmp, "wd")
        for d in ("wd", "other", "elsewhere", "wd/sub dir", "wd/d\u00e9p\u00f4t"):
            os.makedirs(os.path.join(tmp, d))
        content = "a\n1\n2\n"
        real_abs = os.path.join(tmp, real)
        if case["present"] == "there":
            with open(real_abs, "w") as f:
                f.write(content)
        if case["present"] == "absent_but_same_name_in_wd":
            with open(os.path.join(wd, "input.csv"), "w") as f:
                f.write("a\n7\n")
        if spelled is None:
            spelled = real_abs
        out_spelled = os.path.join(os.path.dirname(spelled), "written.csv") if case["form"] != "absolute" else os.path.join(tmp, "elsewhere", "written.csv")
        out_real = os.path.join(os.path.dirname(real_abs), "written.csv")
        text = 'R = EEMSRead(InFileName = "%s", InFieldName = a)\nC = Copy(InFieldName = R)\nW = EEMSWrite(OutFileName = "%s", OutFieldNames = [C])\n' % (
            spelled.replace("\\", "/"), out_spelled.replace("\\", "/"))
        os.chdir(os.path.join(tmp, case["cwd"]))
        before = listing(tmp)
        del EXEC_LOG[:]
        sig = "paths|%s|%s" % (case["form"], case["present"])
        rec.label("paths:" + case["form"])
        rec.nontrivial_case(case)
        try:
            p = Program.from_source(text, libraries=EEMS_CSV_LIBRARIES, working_dir=wd)
            p.run()
            status, exc = "ok", None
        except Exception as e:
            status, exc = "error", e
        if case["present"] == "there":
            if status != "ok":
                return [Failure(sig + "|wellformed_rejected:%s" % type(exc).__name__, "%s\n%s" % (sstr(exc)[:300], text))]
            if not os.path.exists(out_real):
                return [Failure(sig + "|output_not_where_named", "expected %s; directory now %r" % (out_real, sorted(set(listing(tmp)) - set(before))))]
            return []
        if status == "ok":
            return [Failure(sig + "|illformed_accepted", "the file does not exist, yet the model ran\n%s" % text)]
        if type(exc).__name__ != "PathDoesNotExist":
            return [Failure(sig + "|wrong_error:%s" % type(exc).__name__, sstr(exc)[:300])]
        if EXEC_LOG or listing(tmp) != before:
            return [Failure(sig + "|side_effect_before_rejection", "%r %r" % (EXEC_LOG[:3], sorted(set(listing(tmp)) - set(before))))]
        return []
    finally:
        os.chdir(cwd)
        shutil.rmtree(tmp, ignore_errors=True)


# ------------------------------------------------------------------------------------ the libraries named more than once

OVERLAPS = {
    "plain": (),
    "same_library_again": ("mpilot.libraries.eems.csv",),
    "same_library_first": ("mpilot.libraries.eems.csv", "mpilot.libraries.eems.basic"),
    "package_and_its_module": ("mpilot.libraries.eems.csv.io",),
    "all_three_again": ("mpilot.libraries.eems.basic", "mpilot.libraries.eems.csv", "mpilot.libraries.eems.fuzzy"),
}


def overlap_cases():
    for how in sorted(OVERLAPS):
        for where in ("before", "after"):
            for model in ("wellformed", "dangling_reference", "missing_parameter"):
                for via in ("api", "cli"):
                    yield {"how": how, "where": where, "model": model, "via": via}


def check_overlap(case, rec):
    """Naming a library twice, or a package together with one of its own modules, selects the same commands once: the
    model is accepted or rejected -- with its specific error -- exactly as under the plain selection."""
    from click.testing import CliRunner
    from mpilot.cli.mpilot import main
    from mpilot.program import EEMS_CSV_LIBRARIES, Program

    extra = OVERLAPS[case["how"]]
    libs = tuple(extra) + tuple(EEMS_CSV_LIBRARIES) if case["where"] == "before" else tuple(EEMS_CSV_LIBRARIES) + tuple(extra)
    text = {"wellformed": 'R = EEMSRead(InFileName = "input.csv", InFieldName = a)\nC = Copy(InFieldName = R)\n',
            "dangling_reference": 'R = EEMSRead(InFileName = "input.csv", InFieldName = a)\nC = Copy(InFieldName = Nowhere)\n',
            "missing_parameter": 'R = EEMSRead(InFileName = "input.csv")\n'}[case["model"]]
    want = {"wellformed": None, "dangling_reference": "ResultDoesNotExist", "missing_parameter": "MissingParameters"}[case["model"]]
    sig = "overlap|%s|%s" % (case["how"], case["model"])
    rec.label("overlap:" + case["how"])
    rec.nontrivial_case(case)
    tmp = tempfile.mkdtemp(prefix="vcheck-c12-")
    try:
        prepare_dir(tmp, SP.CSV)
        if case["via"] == "api":
            try:
                Program.from_source(text, libraries=libs, working_dir=tmp).run()
                got = None
            except Exception as exc:
                got = type(exc).__name__
            if got != want:
                return [Failure(sig + "|got:%s" % got, "libraries %r: expected %s\n%s" % (libs, want or "acceptance", text))]
            return []
        if case["where"] == "after":
            return []  # the command-line tool puts -l libraries in front of its defaults
        path = os.path.join(tmp, "model.mpt")
        with open(path, "w") as f:
            f.write(text)
        args = ["eems-csv", path]
        for lib in extra:
            args += ["-l", lib]
        res = CliRunner().invoke(main, args)
        try:
            stderr = res.stderr
        except Exception:
            stderr = res.output
        if res.exception is not None and not isinstance(res.exception, SystemExit):
            return [Failure(sig + "|cli_traceback:%s" % type(res.exception).__name__, repr(res.exception))]
        if (res.exit_code == 0) != (want is None):
            return [Failure(sig + "|cli_exit:%s" % res.exit_code, "expected %s; stderr %r" % (want or "success", stderr[-300:]))]
        if want == "ResultDoesNotExist" and "Nowhere" not in stderr:
            return [Failure(sig + "|cli_message", "stderr %r does not name the missing result" % stderr[-300:])]
        return []
    finally:
        shutil.rmtree(tmp, ignore_errors=True)


PARTS = {"decl": check_decl, "pair": check_pair, "fault": check_fault, "extend": check_extend, "paths": check_paths, "overlap": check_overlap, "edit": check_edit, "retry": check_retry}


def setup_parent(ctx):
    install_wrappers()


def run_shard(ctx, rec):
    install_wrappers()
    drive_enum(ctx, rec, "decl", decl_cases(), check_decl, exhaustive=True, max_novel=40)
    drive_enum(ctx, rec, "pair", pair_cases(), check_pair, exhaustive=True, max_novel=12)
    drive_enum(ctx, rec, "paths", path_cases(), check_paths, exhaustive=True, max_novel=12)
    drive_enum(ctx, rec, "overlap", overlap_cases(), check_overlap, exhaustive=True, max_novel=6)
    drive(ctx, rec, "fault", fault_cases(), check_fault, ctx.n(160, 4000))
    drive(ctx, rec, "extend", fault_cases(), check_extend, ctx.n(400, 8000))
    drive(ctx, rec, "edit", fault_cases(), check_edit, ctx.n(400, 8000))
    drive(ctx, rec, "retry", fault_cases(), check_retry, ctx.n(300, 6000))
