"""C06 -- fuzzy-logic operators compute the EEMS definitions and obey their algebra."""
from __future__ import annotations

import itertools

import numpy
from hypothesis import strategies as st

from .. import arr as A
from .. import modelslice as MS
from ..core import sstr, Failure, drive, drive_enum
from ..ref import commands as R

ID = "C06"
LEVEL = "exploration"
DESIGN_REF = "DESIGN.md section 3, C06"
TECHNIQUE = "exhaustive lattice enumeration + Hypothesis generation against an exact-rational scalar reference and algebraic laws"
LEVEL_TEXT = (
    "Every operator is compared cell by cell with a scalar reference in exact rationals on the complete 10-symbol "
    "lattice for up to 3 inputs (thorough; quick: 2 inputs plus a slice of 3) and on generated arrays of arbitrary "
    "fuzzy doubles for up to 5 inputs; the algebraic laws are checked over all input permutations. Exhaustive for "
    "the lattice slices, sampled beyond."
    ' Generated inputs include crisp layers with integer element types for the selecting operators, and a whole-model part runs fuzzy-logic operators over shared inputs through Program.run.'
)
LEVEL_TEXT += ' Added later: weight vectors that add up to nearly one or nearly a round number; the model slice inherits the C02 histories (rerun after a failed attempt, twin programs from shared arguments).'
LEVEL_NOTE = "Trusts numpy and the reference functions in vcheck/ref; inputs restricted to the operators' declared fuzzy domain."
RULE = (
    "Cases: (a) exhaustive lattice: for n=1..3 (quick: 1..2 plus a slice of 3) every combination of the 10 symbols "
    "{-1,-3/4,...,+1, missing} is one cell of the n input arrays; x every operator x every k in 1..n x "
    "Truest/Falsest x a fixed family of weight vectors; (b) the algebraic laws on the same lattice arrays; "
    "(c) Hypothesis: n=1..5 arrays of arbitrary doubles in [-1,1] with forced ties, masks, random weights. "
    "Oracle: scalar reference in exact rationals (vcheck/ref/commands.py) per cell, and the laws "
    "(permutation invariance over all n! orders, Not involution, De Morgan, And<=Union<=Or, Selected k=1/k=n, "
    "equal-weight WeightedUnion=Union). A case is non-trivial when it contains a cell whose inputs are all "
    "present and not all equal; distinct = digest of (operator, parameters, input arrays)."
)
ASSUMPTIONS = [
    "inputs are fuzzy-valued (the operators' declared precondition is_fuzzy=True)",
    "FuzzyXOr is defined for n >= 2 inputs; NumberToConsider in 1..n; weight sums are non-zero",
    "float64 results accepted within the propagated forward error bound of the documented formula (>= 1e-9 relative floor)",
]

LATTICE = [-1.0, -0.75, -0.5, -0.25, 0.0, 0.25, 0.5, 0.75, 1.0, None]
OPS = ["FuzzyOr", "FuzzyAnd", "FuzzyNot", "FuzzyUnion", "FuzzyWeightedUnion", "FuzzySelectedUnion", "FuzzyXOr"]
WEIGHT_FAMILY = {
    1: [[1], [2.5], [-1], [1.000004], [0.9999993]],
    2: [[1, 1], [1, 0], [0, 1], [1, 2], [0.5, 0.25], [3, -1], [0.6, 0.400004], [0.5, 0.4999999], [100000, 0.25]],
    3: [[1, 1, 1], [1, 0, 0], [0, 0, 1], [1, 2, 3], [0.5, 0.25, 2], [1, 0, 2], [2, -1, 1], [0.333333, 0.333333, 0.333333],
        [0.2, 0.3, 0.500007]],  # rounded shares: the sum is close to one without being one
}


def lattice_arrays(n, limit=None):
    """n arrays whose cells enumerate LATTICE**n (optionally only the first `limit` combos)."""
    combos = list(itertools.product(range(len(LATTICE)), repeat=n))
    if limit:
        combos = combos[:limit]
    arrays = []
    for i in range(n):
        data = [LATTICE[c[i]] if LATTICE[c[i]] is not None else 0.0 for c in combos]
        mask = [1 if LATTICE[c[i]] is None else 0 for c in combos]
        arrays.append({"data": data, "mask": mask, "dtype": "float64"})
    return arrays


def expand(case):
    if case.get("arrays") == "lattice":
        return lattice_arrays(case["n"], case.get("limit"))
    return case["arrays"]


def param_space(op, n):
    if op == "FuzzyWeightedUnion":
        return [{"Weights": w} for w in WEIGHT_FAMILY[n]]
    if op == "FuzzySelectedUnion":
        return [{"TruestOrFalsest": w, "NumberToConsider": k} for w in ("Truest", "Falsest") for k in range(1, n + 1)]
    return [{}]


def nontrivial_cells(cells_list):
    n = 0
    for cells in zip(*cells_list):
        if all(c is not None for c in cells) and len(set(c.v for c in cells)) > 1:
            n += 1
    return n


def check_op(case, rec):
    """One operator on n arrays vs the scalar reference."""
    op, params = case["op"], case["params"]
    specs = expand(case)
    arrays = [A.make_array(s) for s in specs]
    n = len(arrays)
    if op == "FuzzyNot" and n != 1:
        return []
    sig = "%s|%s" % (op, A.input_class(arrays))
    cells = [A.cells_of(a) for a in arrays]
    try:
        ref = R.evaluate(op, cells, params, [a.shape for a in arrays])
    except R.Undefined:
        rec.exclude("undefined:%s/n%d" % (op, n))
        return []
    status, result = A.run_command(op, arrays, params)
    if status == "err":
        return [Failure(sig + "|raises:" + A.exc_name(result), sstr(result)[:300])]
    stats = {}
    fails = A.compare(result, ref, arrays[0].shape, sig, stats=stats)
    nt = nontrivial_cells(cells) if n > 1 else sum(1 for c in cells[0] if c is not None and c.v != 0)
    rec.label("op:" + op, n=1)
    rec.label("cells_compared", n=stats.get("compared", 0))
    rec.label("nontrivial_cells", n=nt)
    if nt:
        rec.nontrivial_case(case)
        rec.label("n=%d" % n, sample=case if case.get("arrays") == "lattice" or len(specs[0]["data"]) <= 6 else None)
    return fails


def _run(op, arrays, params=None):
    status, result = A.run_command(op, arrays, params or {})
    if status == "err":
        raise _LawError(op, result)
    if not isinstance(result, numpy.ndarray):
        raise _LawError(op, TypeError("result is %r, not an array" % type(result)))
    return result


class _LawError(Exception):
    def __init__(self, op, exc):
        Exception.__init__(self, op)
        self.op = op
        self.exc = exc


def same(a, b, tol=0.0):
    """Equal masks and equal (within tol) values at non-missing cells."""
    if a.shape != b.shape:
        return False
    ma, mb = numpy.ma.getmaskarray(a), numpy.ma.getmaskarray(b)
    if not (ma == mb).all():
        return False
    da, db = numpy.ma.getdata(a)[~ma].astype(float), numpy.ma.getdata(b)[~mb].astype(float)
    if tol == 0.0:
        return bool((da == db).all())
    return bool((numpy.abs(da - db) <= tol).all())


def check_laws(case, rec):
    specs = expand(case)
    arrays = [A.make_array(s) for s in specs]
    n = len(arrays)
    cls = A.input_class(arrays)
    fails = []

    def law(name, ok, detail=""):
        rec.label("law:" + name)
        if not ok:
            fails.append(Failure("law:%s|%s" % (name, cls), detail))

    try:
        x = arrays[0]
        nx = _run("FuzzyNot", [x])
        law("not_involution", same(_run("FuzzyNot", [nx]), numpy.ma.array(x, dtype=float)))
        f_or = _run("FuzzyOr", arrays)
        f_and = _run("FuzzyAnd", arrays)
        f_union = _run("FuzzyUnion", arrays)
        nots = [_run("FuzzyNot", [a]) for a in arrays]
        law("de_morgan_or", same(_run("FuzzyNot", [f_or]), _run("FuzzyAnd", nots)))
        law("de_morgan_and", same(_run("FuzzyNot", [f_and]), _run("FuzzyOr", nots)))
        m = numpy.ma.getmaskarray(f_union)
        law("and_le_union_le_or",
            same_mask(f_or, f_and, f_union)
            and bool((numpy.ma.getdata(f_and)[~m] <= numpy.ma.getdata(f_union)[~m] + 1e-12).all())
            and bool((numpy.ma.getdata(f_union)[~m] <= numpy.ma.getdata(f_or)[~m] + 1e-12).all()))
        law("selected_k1_truest_is_or",
            same(_run("FuzzySelectedUnion", arrays, {"TruestOrFalsest": "Truest", "NumberToConsider": 1}), f_or))
        law("selected_k1_falsest_is_and",
            same(_run("FuzzySelectedUnion", arrays, {"TruestOrFalsest": "Falsest", "NumberToConsider": 1}), f_and))
        for which in ("Truest", "Falsest"):
            law("selected_kn_is_union",
                same(_run("FuzzySelectedUnion", arrays, {"TruestOrFalsest": which, "NumberToConsider": n}), f_union, 1e-12))
        for w in (1, 0.25, 3):
            law("equal_weights_is_union", same(_run("FuzzyWeightedUnion", arrays, {"Weights": [w] * n}), f_union, 1e-12))
        if n >= 2 and n <= 4:
            weights = case.get("weights") or list(range(1, n + 1))
            base = {
                "FuzzyOr": f_or, "FuzzyAnd": f_and, "FuzzyUnion": f_union,
                "FuzzyXOr": _run("FuzzyXOr", arrays),
                "FuzzyWeightedUnion": _run("FuzzyWeightedUnion", arrays, {"Weights": weights}),
            }
            sel = {}
            for which in ("Truest", "Falsest"):
                for k in range(1, n + 1):
                    sel[(which, k)] = _run("FuzzySelectedUnion", arrays, {"TruestOrFalsest": which, "NumberToConsider": k})
            for perm in itertools.permutations(range(n)):
                if perm == tuple(range(n)):
                    continue
                parr = [arrays[i] for i in perm]
                for op in ("FuzzyOr", "FuzzyAnd", "FuzzyUnion", "FuzzyXOr"):
                    law("perm:" + op, same(_run(op, parr), base[op], 1e-12), "perm %r" % (perm,))
                law("perm:FuzzyWeightedUnion",
                    same(_run("FuzzyWeightedUnion", parr, {"Weights": [weights[i] for i in perm]}),
                         base["FuzzyWeightedUnion"], 1e-12), "perm %r" % (perm,))
                for (which, k), b in sel.items():
                    law("perm:FuzzySelectedUnion",
                        same(_run("FuzzySelectedUnion", parr, {"TruestOrFalsest": which, "NumberToConsider": k}), b, 1e-12),
                        "perm %r %s k=%d" % (perm, which, k))
    except _LawError as le:
        fails.append(Failure("law_raises:%s:%s|%s" % (le.op, A.exc_name(le.exc), cls), sstr(le.exc)[:300]))
    cells = [A.cells_of(a) for a in arrays]
    if n >= 2 and nontrivial_cells(cells):
        rec.nontrivial_case(["laws", case])
        rec.label("laws:n=%d" % n, sample=case if case.get("arrays") == "lattice" else None)
    return fails


def same_mask(*arrs):
    m0 = numpy.ma.getmaskarray(arrs[0])
    return all((numpy.ma.getmaskarray(a) == m0).all() for a in arrs[1:])


MODEL_CMDS = ["CvtToFuzzy", "Copy", "FuzzyNot", "FuzzyOr", "FuzzyAnd", "FuzzyXOr", "FuzzyUnion", "FuzzyWeightedUnion", "FuzzySelectedUnion"]
LOGIC = set(MODEL_CMDS) - {"CvtToFuzzy", "Copy"}


def check_model(model, rec):
    """Whole models of fuzzy-logic operators over shared inputs: every operator result equals the definition applied
    to the reference values of its inputs, whatever ran before it."""
    return MS.model_failures(model, rec, lambda sig, cmd: cmd in LOGIC, "model")


PARTS = {"op": check_op, "laws": check_laws, "model": check_model}


# --------------------------------------------------------------------------- generators

def fuzzy_values():
    lattice = st.sampled_from([x for x in LATTICE if x is not None])
    return st.one_of(lattice, lattice, st.floats(min_value=-1.0, max_value=1.0, allow_nan=False, width=64))


@st.composite
def random_arrays(draw, nmin=1, nmax=5):
    n = draw(st.integers(nmin, nmax))
    size = draw(st.integers(1, 10))
    pool = draw(st.lists(fuzzy_values(), min_size=1, max_size=4))  # ties forced by a small value pool
    arrays = []
    for _ in range(n):
        data = draw(st.lists(st.one_of(st.sampled_from(pool), fuzzy_values()), min_size=size, max_size=size))
        kind = draw(st.sampled_from(["none", "some", "some", "all"]))
        if kind == "none":
            mask = None
        elif kind == "all":
            mask = [1] * size
        else:
            mask = draw(st.lists(st.sampled_from([0, 0, 0, 1]), min_size=size, max_size=size))
        spec = {"data": data, "mask": mask, "dtype": "float64"}
        if draw(st.integers(0, 4)) == 0:
            # a crisp layer (fully false / neutral / fully true) stored with an integer element type, among graded ones
            spec = {"data": [int(round(x)) for x in data], "mask": mask, "dtype": draw(st.sampled_from(["int64", "int32", "int8"]))}
        arrays.append(spec)
    # the same cells as a grid or a cube (time x row x column): operators work cell by cell whatever the shape
    shapes = [[size]] + [[a, size // a] for a in range(2, size) if size % a == 0] + [[a, b, size // a // b] for a in range(2, size)
                                                                                  for b in range(1, size) if size % (a * b) == 0 and a * b <= size]
    shape = draw(st.sampled_from(shapes))
    for spec in arrays:
        spec["shape"] = shape
    return arrays


@st.composite
def random_op_case(draw):
    arrays = draw(random_arrays())
    n = len(arrays)
    ops = [o for o in OPS if (o != "FuzzyNot" or n == 1) and (o != "FuzzyXOr" or n >= 2)]
    if any(a["dtype"] != "float64" for a in arrays):
        # integer-typed crisp layers go to the operators that select or negate values; the two averaging operators
        # divide in place and reject integer element types on the pinned tree (no built-in producer delivers them)
        ops = [o for o in ops if o not in ("FuzzyUnion", "FuzzyWeightedUnion")]
    op = draw(st.sampled_from(ops))
    params = {}
    if op == "FuzzyWeightedUnion":
        w = draw(st.lists(st.one_of(st.integers(-3, 9), st.floats(-4, 16, allow_nan=False, width=32)), min_size=n, max_size=n))
        if abs(sum(w)) < 1e-3:
            w[0] = w[0] + 1
        if abs(sum(w)) < 1e-3:
            w = [1] * n
        if draw(st.integers(0, 5)) == 0:
            # shares written with a few decimals: they add up to nearly (not exactly) one, or to nearly a round number
            total, digits = sum(w), draw(st.integers(3, 8))
            w = [round(x / total * draw(st.sampled_from([1, 1, 2, 10])), digits) for x in w]
            if abs(sum(w)) < 1e-3:
                w = [1] * n
        params = {"Weights": w}
    elif op == "FuzzySelectedUnion":
        params = {"TruestOrFalsest": draw(st.sampled_from(["Truest", "Falsest"])), "NumberToConsider": draw(st.integers(1, n))}
    return {"op": op, "params": params, "arrays": arrays}


@st.composite
def random_laws_case(draw):
    arrays = [dict(a, data=[float(x) for x in a["data"]], dtype="float64") for a in draw(random_arrays(1, 4))]  # the laws involve the averaging operators
    n = len(arrays)
    w = draw(st.lists(st.integers(1, 7), min_size=n, max_size=n))
    return {"arrays": arrays, "n": n, "weights": w}


def lattice_cases(ctx):
    top = 2 if ctx.quick else 3
    for n in range(1, top + 1):
        for op in OPS:
            if op == "FuzzyNot" and n != 1:
                continue
            if op == "FuzzyXOr" and n < 2:
                continue
            for params in param_space(op, n):
                yield {"op": op, "params": params, "arrays": "lattice", "n": n}
    if ctx.quick:
        # a 250-cell slice of the n=3 lattice keeps the quick tier fast
        for op in OPS[3:] + OPS[:2]:
            for params in param_space(op, 3)[:4]:
                yield {"op": op, "params": params, "arrays": "lattice", "n": 3, "limit": 250}


def laws_lattice_cases(ctx):
    yield {"arrays": "lattice", "n": 1}
    yield {"arrays": "lattice", "n": 2}
    if ctx.quick:
        yield {"arrays": "lattice", "n": 3, "limit": 300}
    else:
        yield {"arrays": "lattice", "n": 3}
        yield {"arrays": "lattice", "n": 4, "limit": 4000}


def run_shard(ctx, rec):
    drive(ctx, rec, "model", MS.model_cases(cmds=MODEL_CMDS), check_model, ctx.n(1200, 20000))
    drive_enum(ctx, rec, "op", lattice_cases(ctx), check_op, exhaustive=True)
    drive_enum(ctx, rec, "laws", laws_lattice_cases(ctx), check_laws, exhaustive=True)
    drive(ctx, rec, "op", random_op_case(), check_op, ctx.n(2500, 60000))
    drive(ctx, rec, "laws", random_laws_case(), check_laws, ctx.n(300, 6000))
