"""C02 -- model results equal the evaluation of the graph, whatever the file order."""
from __future__ import annotations

import os
import shutil
import tempfile

import numpy
from hypothesis import strategies as st

from .. import arr as A
from .. import unit as U
from ..core import peek, sstr, Failure, drive, drive_enum
from ..gen import models as M
from ..ref import commands as R

ID = "C02"
LEVEL = "exploration"
DESIGN_REF = "DESIGN.md section 3, C02"
TECHNIQUE = "Hypothesis generation of typed model DAGs with CSV tables: differential against an independent exact-rational reference interpreter + metamorphic re-rendering (order, metadata, extra consumers)"
LEVEL_TEXT = (
    "Random well-typed models (1-3 CSV columns with float or integer data and missing cells, up to 10 further commands "
    "drawn from all 30 data commands with fan-in up to 5, shared intermediates and forward references) are written as "
    "command files in a generated textual order, loaded with Program.from_source and run. Every command's result is "
    "compared (shape, mask, values within the propagated error bound) with an independent reference interpreter that "
    "evaluates the dependency graph in exact rationals; the same model re-rendered in another order, without metadata "
    "and with extra consumers attached must give bit-identical results. Sampled, not exhaustive."
    ' A slice dense in weighted commands, and a deep part: chains of 60-1500 value-preserving built-in commands linked directly, through lists or mixed, in forward, reversed and shuffled file order.'
)
LEVEL_TEXT += ' Added later: enumerated integer columns of codes 2^53..2^60 with step thresholds one off a code; one model in five is first run on a table with a non-numeric cell (refused), repaired and run again on the same Program; one in five is built twice through add_command from the very same Argument objects on two tables, the first run before the second.'
LEVEL_NOTE = (
    "Nodes whose reference is undefined (statistics of fewer than two distinct values, decisions within rounding) and their "
    "descendants are not compared and any outcome is accepted there; they are counted in evidence."
)
RULE = (
    "Hypothesis draws (table, typed DAG, textual order, metadata). Oracles: per-command comparison with the reference "
    "interpreter (vcheck/ref); models whose reference predicts a documented error must raise that error class; a second "
    "rendering (different order, metadata dropped, an extra Copy/PrintVars consumer on a random intermediate) must give "
    "bit-identical results. Non-trivial: >= 3 non-source commands, at least one forward reference in the text, at least "
    "one missing cell and at least one value comparison with a tight bound; distinct = digest of the model."
)
ASSUMPTIONS = [
    "parameters come from the documented domains (see C08); undefined data flows are skipped and counted",
    "float results accepted within the propagated error bound (>= 1e-9 relative floor)",
]


def load_and_run(text, tmp, fail_first=False):
    from mpilot.exceptions import MPilotError
    from mpilot.program import Program

    from ..history import maybe_earlier_v2_load

    maybe_earlier_v2_load(text)
    prog = Program.from_source(text, working_dir=tmp)
    if fail_first:
        # a first attempt on a table with a cell that is no number fails while the model runs; the table is repaired
        # and the same Program object is run again: it then evaluates the graph on the table as it now is
        path = os.path.join(tmp, "input.csv")
        with open(path) as f:
            good = f.read()
        lines = good.split("\n")
        k = 1 + (len(lines) - 2) // 2
        lines[k] = ",".join(["n/a"] + lines[k].split(",")[1:])
        with open(path, "w") as f:
            f.write("\n".join(lines))
        try:
            prog.run()
        except MPilotError:
            pass
        finally:
            with open(path, "w") as f:
                f.write(good)
    prog.run()
    return prog


def twin_programs(model):
    """Two Program objects built through add_command from the very same argument objects (Argument instances, hence the
    same lists), each with its own working directory and table; every cell of the second table is one more than in the
    first.  -> (programs, scratch directories, the second model)"""
    import copy

    from mpilot.arguments import Argument
    from mpilot.program import EEMS_CSV_LIBRARIES, Program

    from . import c12

    model2 = copy.deepcopy(model)
    for spec in model2["cols"].values():
        spec["data"] = [x + 1 for x in spec["data"]]
    cmds = c12.model_commands(model)[2:]
    shared = [(c, {k: Argument(k, c12.api_value(v)) for k, v in c["args"]}) for c in cmds]
    tmps = [tempfile.mkdtemp(prefix="vcheck-c02-twin-") for _ in range(2)]
    progs = []
    for m, tmp in zip((model, model2), tmps):
        M.write_table(m, os.path.join(tmp, "input.csv"))
        prog = Program(libraries=EEMS_CSV_LIBRARIES, working_dir=tmp)
        for c, args in shared:
            prog.add_command(prog.find_command_class(c["cmd"]), c["name"], dict(args))
        progs.append(prog)
    return progs, tmps, model2


def twin_failures(model, rec, text):
    """The same model description applied to two tables by a caller of the programming interface: the first program is
    run, then the second -- whose results must be those of *its* table."""
    progs, tmps, model2 = twin_programs(model)
    fails = []
    try:
        ref2 = M.reference_results(model2)
        if any(isinstance(v, tuple) for v in ref2.values()):
            rec.exclude("twin:second_table_leads_to_a_documented_error")
            return []
        try:
            progs[0].run()
            progs[1].run()
        except Exception as exc:
            if any(isinstance(v, M.NodeUndefined) for v in ref2.values()):
                rec.exclude("twin:raises_with_undefined_nodes")
                return []
            return [Failure("model|twin_program_raises:%s" % A.exc_name(exc), "%s\n%s" % (sstr(exc)[:300], text))]
        rec.label("twin_programs_from_shared_arguments")
        bad = set()
        stats = {}
        for node in model["nodes"]:
            name, r = node["name"], ref2[node["name"]]
            if any(i in bad for i in node.get("inputs", [])) or not isinstance(r, list):
                bad.add(name)
                continue
            before = stats.get("int_overflow", 0)
            fs = A.compare(progs[1].commands[name].result, r, (model["rows"],), "%s|model|second_of_twin_programs" % node["cmd"], stats=stats)
            if fs or stats.get("int_overflow", 0) != before:
                bad.add(name)
            for f in fs:
                f.detail = "%s (every cell of the second table is one more than in the first): %s\n%s" % (name, f.detail, text)
            fails.extend(fs)
        return fails
    finally:
        for tmp in tmps:
            shutil.rmtree(tmp, ignore_errors=True)


def localise(text, tmp, model):
    """Evaluate node by node on a fresh program; -> {name: ("ok", result) | ("err", exc) | ("skipped", None)}"""
    from mpilot.program import Program

    out = {}
    try:
        prog = Program.from_source(text, working_dir=tmp)
    except Exception as exc:
        return {"<load>": ("err", exc)}
    failed = set()
    for node in model["nodes"]:
        if any(i in failed for i in node.get("inputs", [])):
            failed.add(node["name"])
            out[node["name"]] = ("skipped", None)
            continue
        try:
            out[node["name"]] = ("ok", prog.commands[node["name"]].result)
        except Exception as exc:
            failed.add(node["name"])
            out[node["name"]] = ("err", exc)
    return out


def has_forward_reference(model):
    pos = {model["nodes"][i]["name"]: k for k, i in enumerate(model["order"])}
    for n in model["nodes"]:
        for i in n.get("inputs", []):
            if pos[i] > pos[n["name"]]:
                return True
    return False


def check_model(model, rec):
    ref = M.reference_results(model)
    tmp = tempfile.mkdtemp(prefix="vcheck-c02-")
    fails = []
    try:
        M.write_table(model, os.path.join(tmp, "input.csv"))
        text = M.source(model)
        expects = sorted(set(v[1] for v in ref.values() if isinstance(v, tuple)))
        undefined = [k for k, v in ref.items() if isinstance(v, M.NodeUndefined)]
        ncmd = len(model["nodes"]) - len(model["cols"])
        rec.label("nodes:%d" % min(ncmd, 10))
        try:
            prog = load_and_run(text, tmp, fail_first=model.get("history") == "fail_first")
            results = {k: ("ok", c.result) for k, c in prog.commands.items()}
            run_exc = None
        except Exception as exc:
            run_exc = exc
            results = localise(text, tmp, model)
            if model.get("history") == "fail_first" and "<load>" not in results and not any(v[0] == "err" for v in results.values()):
                return [Failure("model|run_after_repaired_input_raises:%s" % A.exc_name(exc),
                                "first run on a table with a non-numeric cell (rejected), table repaired, second run of the same "
                                "program: %s\n%s" % (sstr(exc)[:300], text))]
        if model.get("history") == "fail_first":
            rec.label("rerun_after_failed_attempt")
        if "<load>" in results:
            exc = results["<load>"][1]
            return [Failure("load_raises:%s" % A.exc_name(exc), "%s\n%s" % (sstr(exc)[:300], text))]
        if expects:
            rec.label("model_with_documented_error")
            if run_exc is None:
                fails.append(Failure("expected:%s|got:ok" % "/".join(expects), text))
            elif type(run_exc).__name__ not in expects and not undefined:
                fails.append(Failure("expected:%s|got:%s" % ("/".join(expects), A.exc_name(run_exc)), sstr(run_exc)[:300]))
        stats = {}
        compared_nodes = 0
        bad = set()
        for node in model["nodes"]:
            name = node["name"]
            r = ref[name]
            status, val = results.get(name, ("skipped", None))
            if any(i in bad for i in node.get("inputs", [])):
                bad.add(name)  # only the first wrong node on a path is reported
                continue
            if not isinstance(r, list):
                if isinstance(r, M.NodeUndefined):
                    rec.exclude("node_undefined")
                continue
            if status == "skipped":
                continue
            sig = "%s|%s" % (node["cmd"], "model")
            if status == "err":
                bad.add(name)
                fails.append(Failure("%s|raises:%s" % (sig, A.exc_name(val)), "%s\n%s" % (sstr(val)[:300], text)))
                continue
            overflow_before = stats.get("int_overflow", 0)
            fs = A.compare(val, r, (model["rows"],), sig, stats=stats)
            compared_nodes += 1
            if fs:
                bad.add(name)
            if stats.get("int_overflow", 0) != overflow_before:
                bad.add(name)  # whatever consumes a wrapped-around integer is not compared either
                rec.exclude("integer_overflow_outside_domain")
            for f in fs:
                f.detail = "%s: %s\n%s" % (name, f.detail, text)
            fails.extend(fs)
        rec.label("cells_compared", n=stats.get("compared", 0))
        rec.label("cells_unstable_skipped", n=stats.get("unstable", 0))
        any_missing = any(c["mask"] is not None and any(c["mask"]) for c in model["cols"].values())
        tight = stats.get("compared", 0) - stats.get("loose", 0) > 0
        fwd = has_forward_reference(model)
        if fwd:
            rec.label("forward_reference")
        if any_missing:
            rec.label("missing_cells")
        if ncmd >= 3 and fwd and any_missing and tight and run_exc is None:
            rec.nontrivial_case(model)
            rec.label("nontrivial", sample={"text": text} if len(text) < 700 else None)

        if run_exc is None and not fails and not expects and model.get("history") == "twin":
            fails.extend(twin_failures(model, rec, text))

        # the same Program object extended after its run: new commands are evaluated, earlier results stay as they are
        if run_exc is None and not fails and model.get("extra_on") is not None:
            try:
                lib = prog.command_library
                before = {k: (id(peek(c)), numpy.ma.getdata(peek(c)).tobytes(), numpy.ma.getmaskarray(peek(c)).tobytes())
                          for k, c in prog.commands.items() if isinstance(peek(c), numpy.ndarray)}
                targets = [n["name"] for n in model["nodes"] if isinstance(ref[n["name"]], list) and n["name"] not in bad][:4]
                for t in targets:
                    prog.add_command(lib["Copy"], "Later_" + t, {"InFieldName": t})
                prog.run()
                rec.label("extended_after_run")
                for t in targets:
                    fs = A.compare(prog.commands["Later_" + t].result, ref[t], (model["rows"],), "Copy|extended_after_run")
                    fails.extend(fs)
                for k, (ident, data, mask) in before.items():
                    c = prog.commands[k]
                    if id(peek(c)) != ident or numpy.ma.getdata(peek(c)).tobytes() != data or numpy.ma.getmaskarray(peek(c)).tobytes() != mask:
                        fails.append(Failure("%s|changed_by_second_run" % type(c).__name__, "%s changed when the program was extended and run again\n%s" % (k, text)))
                        break
            except Exception as exc:
                fails.append(Failure("extended_after_run:raises:%s" % A.exc_name(exc), "%s\n%s" % (sstr(exc)[:300], text)))

        # metamorphic re-rendering: other order, no metadata, extra consumers
        if run_exc is None and model.get("order2"):
            extra = []
            target = model["nodes"][model["extra_on"] % len(model["nodes"])]["name"]
            extra.append("Extra1 = Copy(InFieldName = %s)" % target)
            extra.append('Extra2 = PrintVars(InFieldNames = [%s, Extra1], OutFileName = "printed.txt")' % target)
            text2 = M.source(model, order=model["order2"], extra_lines=extra, with_meta=False)
            try:
                prog2 = load_and_run(text2, tmp)
                rec.label("rerendered")
                for node in model["nodes"]:
                    a = prog.commands[node["name"]].result
                    b = prog2.commands[node["name"]].result
                    same = (isinstance(a, numpy.ndarray) and isinstance(b, numpy.ndarray) and U.result_equal(a, b, 0.0)
                            and numpy.ma.getdata(a).dtype == numpy.ma.getdata(b).dtype)
                    if not same:
                        fails.append(Failure("%s|rendering_dependent" % node["cmd"],
                                             "%s differs between\n%s\nand\n%s" % (node["name"], text, text2)))
                        break
            except Exception as exc:
                fails.append(Failure("rendering_dependent:raises:%s" % A.exc_name(exc), "%s\n%s" % (sstr(exc)[:300], text2)))
    finally:
        shutil.rmtree(tmp, ignore_errors=True)
    return fails


@st.composite
def model_cases(draw, cmds=None):
    model = draw(M.typed_models(cmds=cmds))
    model["order2"] = list(draw(st.permutations(list(range(len(model["nodes"]))))))
    model["extra_on"] = draw(st.integers(0, 20))
    model["history"] = draw(st.sampled_from([None, None, None, "fail_first", "twin"]))
    return model


# ------------------------------------------------------------------------------------ long models

DEEP_LINKS = ["Copy(InFieldName = %s)", "Sum(InFieldNames = [%s])", "Maximum(InFieldNames = [%s])", "Mean(InFieldNames = [%s])",
              "Minimum(InFieldNames = [%s, %s])", "AMinusB(A = %s, B = Zero)", "WeightedSum(InFieldNames = [%s, Zero], Weights = [1, 5])"]


def deep_cases(ctx):
    for n in ((60, 450) if ctx.quick else (60, 450, 1500)):
        for links in ("direct", "list", "mixed"):
            for order in ("forward", "reversed", "shuffled"):
                yield {"n": n, "links": links, "order": order}


def check_deep(case, rec):
    """A long chain of commands each of which passes its input on unchanged (Copy, one-input Sum / Maximum / Mean,
    Minimum of the same input twice, minus zero, weighted sum with a zero column): every result equals the column read,
    in any order of the commands in the file."""
    import random

    n = case["n"]
    use = {"direct": [0, 5], "list": [1, 2, 3, 4, 6], "mixed": list(range(len(DEEP_LINKS)))}[case["links"]]
    lines = ['In = EEMSRead(InFileName = "input.csv", InFieldName = "a", MissingVal = -9999)',
             "Zero = AMinusB(A = In, B = In)"]
    for i in range(n):
        prev = "In" if i == 0 else "L%d" % (i - 1)
        tpl = DEEP_LINKS[use[(i * 7 + n) % len(use)]]
        lines.append("L%d = %s" % (i, tpl % ((prev,) * tpl.count("%s"))))
    body = lines[:]
    if case["order"] == "reversed":
        body = body[::-1]
    elif case["order"] == "shuffled":
        random.Random(n).shuffle(body)  # a fixed permutation per length
    tmp = tempfile.mkdtemp(prefix="vcheck-c02-")
    try:
        with open(os.path.join(tmp, "input.csv"), "w") as f:
            f.write("a\n0.5\n-9999\n3\n-1.25\n")
        rec.label("deep:%s:%s" % (case["links"], case["order"]))
        rec.nontrivial_case(case)
        sig = "deep|%s|%s" % (case["links"], case["order"])
        try:
            prog = load_and_run("\n".join(body), tmp)
        except Exception as exc:
            return [Failure(sig + "|raises:%s" % A.exc_name(exc), "%d commands: %s" % (n, sstr(exc)[:200]))]
        want = prog.commands["In"].result
        for name in ("L%d" % (n - 1), "L%d" % (n // 2), "L0"):
            got = prog.commands[name].result
            if not (isinstance(got, numpy.ndarray) and U.result_equal(got, want, 0.0)):
                return [Failure(sig + "|value", "%s = %r, the column read is %r" % (name, got, want))]
        return []
    finally:
        shutil.rmtree(tmp, ignore_errors=True)


def big_code_models(ctx):
    """Integer columns of very large codes with a step threshold right next to a code: integers are compared as
    integers (a threshold one above a code of 2**60 is above it)."""
    for base in (2 ** 53, 2 ** 60, -2 ** 60):
        for delta in (1, -1, 0):
            for direction in ("LowToHigh", "HighToLow"):
                for via in (None, "Maximum", "Copy", "Sum"):
                    for rev in (False, True):
                        cells = [base, base + 256, base - 512, 3]
                        nodes = [{"name": "In0", "cmd": "EEMSRead", "col": "c0"}]
                        src = "In0"
                        if via:
                            nodes.append({"name": "N0", "cmd": via, "inputs": ["In0"], "params": {}})
                            src = "N0"
                        nodes.append({"name": "B", "cmd": "CvtToBinary", "inputs": [src], "params": {"Threshold": base + delta, "Direction": direction}})
                        order = list(range(len(nodes)))
                        yield {"rows": 4, "cols": {"c0": {"data": cells, "mask": None, "dtype": "int64", "missing": None}},
                               "nodes": nodes, "order": order[::-1] if rev else order}


PARTS = {"model": check_model, "deep": check_deep}


def run_shard(ctx, rec):
    drive(ctx, rec, "model", model_cases(), check_model, ctx.n(2000, 60000))
    # a slice dense in the commands that weigh their inputs (a zero weight must not hide an input's missing cells)
    drive(ctx, rec, "model", model_cases(["CvtToFuzzy", "FuzzyWeightedUnion", "WeightedSum", "WeightedMean", "FuzzyNot", "Copy"]), check_model,
          ctx.n(1500, 20000), tag="model/weighted")
    drive_enum(ctx, rec, "model", big_code_models(ctx), check_model, exhaustive=True, tag="model/big_codes")
    drive_enum(ctx, rec, "deep", deep_cases(ctx), check_deep, exhaustive=True)
