"""C18 -- NetCDF reading and writing are faithful."""
from __future__ import annotations

import os
import shutil
import tempfile

import numpy
from hypothesis import strategies as st

from .. import arr as A
from ..core import sstr, Failure, drive, drive_enum

ID = "C18"
LEVEL = "exploration"
DESIGN_REF = "DESIGN.md section 3, C18"
TECHNIQUE = "Hypothesis generation of NetCDF templates, result sets and read-option combinations against a netCDF4-level model: write/read round trip and independent inspection of the written dataset"
LEVEL_TEXT = (
    "Templates with 1-3 dimensions (sizes 1-5), coordinate variables with values and attributes, and variables of f8/f4/"
    "i8/i4 with and without fill values are written by the harness with netCDF4. (write) 1-4 results with different "
    "masks (nomask included) are written together by EEMSWrite and inspected with netCDF4 and read back with EEMSRead: "
    "same shape and element kind, equal values at non-missing cells, every variable missing exactly on the union of the "
    "written masks, dimension variables, their values and attributes copied unchanged. (read) Every combination of "
    "DataType (omitted or one of the five names) and MissingValue (omitted, occurring, non-occurring) is read from "
    "generated files: float64 by default, the file's own missing cells plus the cells equal to MissingValue masked, "
    "Positive types reject negative data with InvalidPositiveData, Fuzzy rejects data outside [-1.02, 1.02] with "
    "InvalidFuzzyData and clamps the rest to [-1, 1]. Sampled, not exhaustive."
    ' Templates may carry CRS variables, 64-bit and non-single-precision coordinates and packed (scale_factor/add_offset) coordinate variables, which must arrive with the same element type, stored numbers and decoded values; read cases may first read other values at the same path.'
)
LEVEL_TEXT += " Added later: valid cells equal to 'no data' numbers (numpy's fill values, the NetCDF library's default fills, -9999) in written results; an enumerated wide-range read part (doubles above 2^63 as unsigned, 64-bit extremes)."
LEVEL_NOTE = "Data read as an integer type are integer-valued (rounding of fractional data is not part of the statement); for Positive/Fuzzy reads the missing value itself lies inside the valid range."
RULE = (
    "Cases: (write) template dims + list of result arrays (dtype, mask); (read) file variable (dtype, fill value, mask, "
    "value class) + DataType option + MissingValue option. Oracle: netCDF4-level model of the dataset and of the "
    "documented read options. Non-trivial: >= 2 results with different masks (write) or a read with >= 1 optional "
    "parameter (read); distinct = digest."
)
ASSUMPTIONS = ["netCDF4 (the library) is trusted to read back what it wrote", "results written together share one shape (the writer validates it)"]

NP = {"u8": numpy.uint64, "f8": numpy.float64, "f4": numpy.float32, "i8": numpy.int64, "i4": numpy.int32, "i2": numpy.int16}


def make_template(path, dims, variables=(), crs=None):
    """crs: None | "esri" (template variable carries esri_pe_string) | "cf" (esri_pe_string + grid_mapping naming a
    variable of the file) | "cf_dim" (the grid-mapping variable has a dimension of its own) | "dangling" (grid_mapping
    names a variable that does not exist)."""
    from netCDF4 import Dataset

    with Dataset(path, "w") as ds:
        names = []
        for i, d in enumerate(dims):
            name = d["name"]
            ds.createDimension(name, d["size"])
            v = ds.createVariable(name, d.get("dtype", "f8"), (name,))
            if d.get("packed"):
                # CF packing: stored integers, decoded as stored * scale_factor + add_offset
                for k, val in d["packed"].items():
                    v.setncattr(k, val)
                v[:] = numpy.array(d["values"], dtype="f8")
            else:
                v[:] = numpy.array(d["values"], dtype=NP[d.get("dtype", "f8")])
            for k, val in d.get("attrs", {}).items():
                v.setncattr(k, val)
            names.append(name)
        t = ds.createVariable("template", "f4", tuple(names))
        t[:] = numpy.zeros([d["size"] for d in dims], dtype="f4")
        if crs:
            t.setncattr("esri_pe_string", 'PROJCS["NAD_1983_Albers",GEOGCS["GCS_North_American_1983"]]')
            if crs != "esri":
                t.setncattr("grid_mapping", "crs")
            if crs == "cf":
                g = ds.createVariable("crs", "i4", ())
                g.setncattr("grid_mapping_name", "albers_conical_equal_area")
                g.setncattr("standard_parallel", [29.5, 45.5])
            elif crs == "cf_dim":
                ds.createDimension("nchar", 3)
                g = ds.createVariable("crs", "i4", ("nchar",))
                g.setncattr("grid_mapping_name", "latitude_longitude")
        for var in variables:
            kw = {}
            if var.get("fill") is not None:
                kw["fill_value"] = var["fill"]
            if var.get("endian"):
                kw["endian"] = var["endian"]  # the byte order on disk is no business of whoever reads the values
            v = ds.createVariable(var["name"], var["dtype"], tuple(names), **kw)
            shape = [d["size"] for d in dims]
            data = numpy.array(var["data"], dtype=NP[var["dtype"]]).reshape(shape)
            if var.get("mask") is not None:
                data = numpy.ma.array(data, mask=numpy.array(var["mask"], dtype=bool).reshape(shape))
            v[:] = data


def cmd_read(path, field, datatype=None, missing=None):
    from mpilot.arguments import Argument
    from mpilot.libraries.eems.netcdf.io import EEMSRead

    args = [Argument("InFileName", path, 1), Argument("InFieldName", field, 2)]
    if datatype is not None:
        args.append(Argument("DataType", datatype, 3))
    if missing is not None:
        args.append(Argument("MissingValue", missing, 4))
    cmd = EEMSRead("R", args, lineno=1)
    try:
        return "ok", cmd.result
    except Exception as exc:
        return "err", exc


def check_write(case, rec):
    from mpilot.arguments import Argument
    from mpilot.libraries.eems.netcdf.io import EEMSWrite
    from netCDF4 import Dataset

    tmp = tempfile.mkdtemp(prefix="vcheck-c18-")
    try:
        tpl = os.path.join(tmp, "template.nc")
        out = os.path.join(tmp, "out.nc")
        dims = case["dims"]
        make_template(tpl, dims, crs=case.get("crs"))
        if case.get("crs"):
            rec.label("template_with_crs:" + case["crs"])
        shape = [d["size"] for d in dims]
        arrays = [A.make_array(r["spec"], shape) for r in case["results"]]
        producers = [A.stub(r["name"], a) for r, a in zip(case["results"], arrays)]
        cmd = EEMSWrite("W", [Argument("OutFileName", out, 1), Argument("OutFieldNames", producers, 2),
                              Argument("DimensionFileName", tpl, 3), Argument("DimensionFieldName", "template", 4)], lineno=1)
        masks = ["nomask" if r["spec"]["mask"] is None else ("some" if any(r["spec"]["mask"]) else "allfalse") for r in case["results"]]
        sig = "write|%s|masks:%s" % ("+".join(sorted(set(r["spec"]["dtype"] for r in case["results"]))), "+".join(sorted(set(masks))))
        rec.label("write:n=%d" % len(arrays))
        if any(abs(x) >= 99999 for r in case["results"] for x, m in zip(r["spec"]["data"], r["spec"]["mask"] or [0] * len(r["spec"]["data"])) if not m):
            rec.label("valid_cell_equals_a_no_data_number")
        try:
            cmd.result
        except Exception as exc:
            return [Failure("%s|raises:%s" % (sig, A.exc_name(exc)), sstr(exc)[:300])]
        union = numpy.zeros(shape, dtype=bool)
        for a in arrays:
            union |= numpy.ma.getmaskarray(a)
        fails = []
        with Dataset(out) as ds, Dataset(tpl) as tds:
            for d in dims:
                if d["name"] not in ds.variables:
                    fails.append(Failure(sig + "|dimension_variable_missing", d["name"]))
                    continue
                # copied unchanged: the same stored numbers of the same element type, decoding to the same coordinates
                vo, vt = ds[d["name"]], tds[d["name"]]
                decoded_o, decoded_t = numpy.ma.getdata(vo[:]).tolist(), numpy.ma.getdata(vt[:]).tolist()
                vo.set_auto_maskandscale(False)
                vt.set_auto_maskandscale(False)
                if vo.dtype != vt.dtype or numpy.asarray(vo[:]).tolist() != numpy.asarray(vt[:]).tolist() or decoded_o != decoded_t:
                    fails.append(Failure(sig + "|dimension_not_copied_unchanged", "%s: template %s %r (decoded %r), written %s %r (decoded %r)" % (
                        d["name"], vt.dtype, numpy.asarray(vt[:]).tolist(), decoded_t, vo.dtype, numpy.asarray(vo[:]).tolist(), decoded_o)))
                    continue
                vo.set_auto_maskandscale(True)
                if d.get("packed"):
                    rec.label("packed_coordinate")
                    continue
                v = ds[d["name"]]
                got = numpy.ma.getdata(v[:])
                if v.dtype != numpy.dtype(NP[d.get("dtype", "f8")]) or got.tolist() != numpy.array(d["values"], dtype=NP[d.get("dtype", "f8")]).tolist():
                    fails.append(Failure(sig + "|dimension_values", "%s: %r vs %r" % (d["name"], got.tolist(), d["values"])))
                for k, val in d.get("attrs", {}).items():
                    if k not in v.ncattrs() or v.getncattr(k) != val:
                        fails.append(Failure(sig + "|dimension_attribute", "%s.%s" % (d["name"], k)))
            for r, a in zip(case["results"], arrays):
                if r["name"] not in ds.variables:
                    fails.append(Failure(sig + "|variable_missing", r["name"]))
                    continue
                v = ds[r["name"]]
                data = v[:]
                if list(data.shape) != shape:
                    fails.append(Failure(sig + "|shape", "%r vs %r" % (data.shape, shape)))
                    continue
                if numpy.ma.getdata(data).dtype.kind != numpy.ma.getdata(a).dtype.kind:
                    fails.append(Failure(sig + "|element_kind", "%s written as %s" % (numpy.ma.getdata(a).dtype, data.dtype)))
                m = numpy.ma.getmaskarray(data)
                if not (m == union).all():
                    fails.append(Failure(sig + "|mask_not_union", "variable %s missing at %r, union of written masks %r" % (
                        r["name"], m.ravel().astype(int).tolist(), union.ravel().astype(int).tolist())))
                elif not (numpy.ma.getdata(data)[~union] == numpy.ma.getdata(a)[~union]).all():
                    fails.append(Failure(sig + "|values", "variable %s" % r["name"]))
        if fails:
            return fails[:3]
        # read back through EEMSRead
        for r, a in zip(case["results"], arrays):
            kind = numpy.ma.getdata(a).dtype.kind
            status, res = cmd_read(out, r["name"], "Integer" if kind == "i" else "Float")
            rec.label("reread")
            if status == "err":
                return [Failure(sig + "|reread_raises:%s" % A.exc_name(res), sstr(res)[:300])]
            if list(res.shape) != shape or numpy.ma.getdata(res).dtype.kind != kind:
                return [Failure(sig + "|reread_shape_or_kind", "%r %s" % (res.shape, numpy.ma.getdata(res).dtype))]
            m = numpy.ma.getmaskarray(res)
            if not (m == union).all():
                return [Failure(sig + "|reread_mask", "variable %s" % r["name"])]
            if not (numpy.ma.getdata(res)[~union] == numpy.ma.getdata(a)[~union]).all():
                return [Failure(sig + "|reread_values", "variable %s" % r["name"])]
        # writing a subset again afterwards: each dataset is missing exactly where the results written *together* were
        if len(arrays) >= 2:
            k = case.get("again", 0) % len(arrays)
            out2 = os.path.join(tmp, "out2.nc")
            own = numpy.array(case["results"][k]["spec"]["mask"], dtype=bool).reshape(shape) if case["results"][k]["spec"]["mask"] is not None \
                else numpy.zeros(shape, dtype=bool)
            cmd2 = EEMSWrite("W2", [Argument("OutFileName", out2, 1), Argument("OutFieldNames", [producers[k]], 2),
                                    Argument("DimensionFileName", tpl, 3), Argument("DimensionFieldName", "template", 4)], lineno=1)
            rec.label("second_write_of_a_subset")
            try:
                cmd2.result
                with Dataset(out2) as ds:
                    m2 = numpy.ma.getmaskarray(ds[case["results"][k]["name"]][:])
                if not (m2 == own).all():
                    return [Failure(sig + "|second_write_mask", "result %s written alone after a joint write is missing at %r, its own missing cells are %r" % (
                        case["results"][k]["name"], m2.ravel().astype(int).tolist(), own.ravel().astype(int).tolist()))]
            except Exception as exc:
                return [Failure("%s|second_write_raises:%s" % (sig, A.exc_name(exc)), sstr(exc)[:300])]
        if len(arrays) >= 2 and len(set(tuple(numpy.ma.getmaskarray(a).ravel()) for a in arrays)) >= 2:
            rec.nontrivial_case(case)
            rec.label("write_nontrivial", sample=case if numpy.prod(shape) <= 3 else None)
        return []
    finally:
        shutil.rmtree(tmp, ignore_errors=True)


RESULT_DTYPE = {None: numpy.float64, "Float": numpy.float64, "Integer": numpy.int64, "Positive Float": numpy.float64,
                "Positive Integer": numpy.uint64, "Fuzzy": numpy.float64}


def check_read(case, rec):
    tmp = tempfile.mkdtemp(prefix="vcheck-c18-")
    try:
        path = os.path.join(tmp, "in.nc")
        dims = case["dims"]
        var = case["var"]
        if case.get("earlier"):
            # the same path held other values a moment ago and they were read: what counts is what the file holds now
            make_template(path, dims, [dict(var, data=[1 if var["dtype"].startswith("i") else 0.5] * len(var["data"]), mask=None, fill=None)])
            cmd_read(path, var["name"], None, None)
            os.remove(path)
            rec.label("read_after_file_replaced")
        make_template(path, dims, [var])
        shape = [d["size"] for d in dims]
        dt, mv = case.get("datatype"), case.get("missing")
        status, res = cmd_read(path, var["name"], dt, mv)
        sig = "read|%s|%s|%s" % (var["dtype"], dt or "default", "missing" if mv is not None else "nomissing")
        rec.label("read:" + (dt or "default"))
        data = numpy.array(var["data"], dtype=NP[var["dtype"]]).reshape(shape)
        fmask = numpy.array(var["mask"], dtype=bool).reshape(shape) if var.get("mask") is not None else numpy.zeros(shape, dtype=bool)
        valid = data[~fmask]
        opt = (dt is not None) + (mv is not None)
        if opt >= 1:
            rec.nontrivial_case(case)
            rec.label("read_with_options", sample=case if data.size <= 3 else None)
        # documented rejections
        if dt in ("Positive Float", "Positive Integer") and valid.size and (valid < 0).any():
            rec.label("expect:InvalidPositiveData")
            if status != "err" or type(res).__name__ != "InvalidPositiveData":
                return [Failure(sig + "|expected:InvalidPositiveData|got:%s" % (A.exc_name(res) if status == "err" else "ok"), repr(res)[:200])]
            return _str_ok(res, sig)
        if dt == "Fuzzy" and valid.size and ((valid > 1.02).any() or (valid < -1.02).any()):
            rec.label("expect:InvalidFuzzyData")
            if status != "err" or type(res).__name__ != "InvalidFuzzyData":
                return [Failure(sig + "|expected:InvalidFuzzyData|got:%s" % (A.exc_name(res) if status == "err" else "ok"), repr(res)[:200])]
            return _str_ok(res, sig)
        if status == "err":
            return [Failure("%s|raises:%s" % (sig, A.exc_name(res)), sstr(res)[:300])]
        fails = []
        if not isinstance(res, numpy.ndarray) or list(res.shape) != shape:
            return [Failure(sig + "|shape", "%r vs %r" % (getattr(res, "shape", type(res)), shape))]
        want_dtype = numpy.dtype(RESULT_DTYPE[dt])
        got_dtype = numpy.ma.getdata(res).dtype
        if got_dtype.kind != want_dtype.kind or (want_dtype.kind == "f" and got_dtype != want_dtype):
            fails.append(Failure(sig + "|element_type", "result dtype %s, documented %s" % (got_dtype, want_dtype)))
        want = data.astype(want_dtype)
        if want_dtype.kind in "iu" and var["dtype"] == "f8":
            want = numpy.rint(data).astype(want_dtype)  # double-precision values are converted to the nearest integer
        if dt == "Fuzzy":
            want = numpy.clip(want, -1.0, 1.0)
        wmask = fmask.copy()
        if mv is not None:
            mvv = int(mv) if want_dtype.kind in "iu" else float(mv)
            wmask |= (want == mvv)
        m = numpy.ma.getmaskarray(res)
        if not (m == wmask).all():
            lost = (wmask & ~m).any()
            fails.append(Failure(sig + ("|mask_lost" if lost else "|mask_extra"), "mask %r, expected %r (file mask %r, MissingValue %r)" % (
                m.ravel().astype(int).tolist(), wmask.ravel().astype(int).tolist(), fmask.ravel().astype(int).tolist(), mv)))
        elif not (numpy.ma.getdata(res)[~wmask].astype(float) == want[~wmask].astype(float)).all():
            fails.append(Failure(sig + "|values", "%r vs %r" % (numpy.ma.getdata(res)[~wmask].tolist(), want[~wmask].tolist())))
        return fails
    finally:
        shutil.rmtree(tmp, ignore_errors=True)


def _str_ok(exc, sig):
    try:
        str(exc)
        return []
    except Exception as e2:
        return [Failure(sig + "|str_raises:%s" % type(e2).__name__, repr(e2))]


# ------------------------------------------------------------------------------------ strategies

@st.composite
def dims_(draw):
    rank = draw(st.integers(1, 3))
    out = []
    for i in range(rank):
        size = draw(st.integers(1, 5))
        dtype = draw(st.sampled_from(["f8", "f8", "f4", "i4", "i8", "f8"]))
        start = draw(st.integers(-5, 5))
        step = draw(st.sampled_from([1, 2, -1]))
        values = [start + step * k for k in range(size)]
        if dtype == "f8" and draw(st.booleans()):
            values = [46.90118237 + 0.1 * x for x in values]  # not representable in single precision
        if dtype == "i8" and draw(st.booleans()):
            values = [2 ** 40 + x for x in values]  # not representable in 32 bits
        attrs = {}
        if draw(st.booleans()):
            attrs["units"] = draw(st.sampled_from(["m", "degrees_north", "days since 2000-01-01"]))
        if draw(st.booleans()):
            attrs["long_name"] = draw(st.sampled_from(["x coordinate", "latitude", "time"]))
        if draw(st.integers(0, 3)) == 0:
            attrs["scale"] = draw(st.sampled_from([1.5, 2, -3]))
        dim = {"name": ["x", "y", "t"][i], "size": size, "dtype": dtype, "values": values, "attrs": attrs}
        if draw(st.integers(0, 4)) == 0:
            dim.update(dtype=draw(st.sampled_from(["i2", "i4"])), packed=draw(st.sampled_from([{"scale_factor": 0.25, "add_offset": 40.0}, {"scale_factor": 0.5}, {"add_offset": -100.0}])),
                       values=[40.0 + 0.5 * k for k in range(size)])
        out.append(dim)
    return out


def cells(dims):
    n = 1
    for d in dims:
        n *= d["size"]
    return n


@st.composite
def write_cases(draw):
    dims = draw(dims_())
    n = cells(dims)
    k = draw(st.integers(1, 4))
    results = []
    for i in range(k):
        dtype = draw(st.sampled_from(["float64", "float64", "float32", "int64", "int32"]))
        if dtype.startswith("int"):
            data = draw(st.lists(st.integers(-1000, 1000), min_size=n, max_size=n))
        else:
            data = draw(st.lists(st.integers(-4000, 4000).map(lambda v: v / 8.0), min_size=n, max_size=n))
        mask = draw(st.one_of(st.none(), st.none(), st.lists(st.sampled_from([0, 0, 1]), min_size=n, max_size=n)))
        if draw(st.integers(0, 3)) == 0:
            # valid cells holding a number that some layer of the software uses to stand for "no data": the fill value
            # numpy gives masked arrays of this type, the NetCDF library's default fill of the type, the usual -9999
            marks = {"float64": [1e20, 9.969209968386869e36, -9999.0], "float32": [float(numpy.float32(1e20)), float(numpy.float32(9.969209968386869e36)), -9999.0],
                     "int64": [999999, -9223372036854775806, -9999], "int32": [999999, -2147483647, -9999]}[dtype]
            for _ in range(draw(st.integers(1, 2))):
                data[draw(st.integers(0, n - 1))] = draw(st.sampled_from(marks))
        results.append({"name": "R%d" % i, "spec": {"data": data, "mask": mask, "dtype": dtype}})
    return {"dims": dims, "results": results, "again": draw(st.integers(0, 3)),
            "crs": draw(st.sampled_from([None, None, None, "esri", "cf", "cf_dim", "dangling"]))}


@st.composite
def read_cases(draw):
    dims = draw(dims_())
    n = cells(dims)
    dtype = draw(st.sampled_from(["f8", "f8", "f4", "i8", "i4"]))
    dt = draw(st.sampled_from([None, None, "Float", "Integer", "Positive Float", "Positive Integer", "Fuzzy"]))
    klass = draw(st.sampled_from(["fuzzy", "fuzzy_pad", "nonneg", "any"])) if dt in ("Fuzzy",) else (
        draw(st.sampled_from(["nonneg", "nonneg", "any"])) if dt in ("Positive Float", "Positive Integer") else draw(st.sampled_from(["any", "nonneg", "fuzzy"])))
    integral = dtype.startswith("i") or dt in ("Integer", "Positive Integer")
    if klass == "fuzzy":
        vals = st.sampled_from([-1, 0, 1]) if integral else st.integers(-8, 8).map(lambda v: v / 8.0)
    elif klass == "fuzzy_pad":
        vals = st.sampled_from([-1, 0, 1]) if integral else st.sampled_from([-1.015625, -1.0, 0.5, 1.0, 1.015625, 1.0078125])
    elif klass == "nonneg":
        vals = st.integers(0, 50) if integral else st.integers(0, 400).map(lambda v: v / 8.0)
    else:
        vals = st.integers(-50, 50) if integral else st.integers(-400, 400).map(lambda v: v / 8.0)
    data = draw(st.lists(vals, min_size=n, max_size=n))
    if dtype == "f8" and dt in ("Integer", "Positive Integer") and draw(st.booleans()):
        data = [x + draw(st.sampled_from([0, 0.25, 0.75, 0.875])) for x in data]  # to be rounded to the nearest integer
    mask = draw(st.one_of(st.none(), st.lists(st.sampled_from([0, 0, 1]), min_size=n, max_size=n)))
    fill = draw(st.sampled_from([None, -9999, 120])) if mask is None else draw(st.sampled_from([None, -9999]))
    mv = None
    if draw(st.booleans()):
        if dt in ("Positive Float", "Positive Integer", "Fuzzy"):
            mv = draw(st.sampled_from([0, 1])) if draw(st.booleans()) else draw(st.sampled_from([d for d in data if 0 <= d <= 1] or [1]))
        else:
            mv = draw(st.sampled_from(data + [-9999, 77])) if data else -9999
    if mv is not None and data and draw(st.integers(0, 2)) == 0:
        # a cell that is almost, but not, the MissingValue stays an ordinary cell (integers: the neighbours of a large value)
        if integral:
            mv = draw(st.sampled_from([1000000, 250000]))
            data = [mv + draw(st.sampled_from([-7, -1, 1, 3])) if k % 2 else x for k, x in enumerate(data)] if dt not in ("Fuzzy",) else data
        elif dtype == "f8":
            data = list(data)
            data[draw(st.integers(0, n - 1))] = mv * (1 + 2e-6) if mv else 1e-9
    case = {"dims": dims, "var": {"name": "v", "dtype": dtype, "data": data, "mask": mask, "fill": fill}, "datatype": dt, "missing": mv}
    if draw(st.integers(0, 3)) == 0:
        case["earlier"] = True
    if draw(st.integers(0, 3)) == 0:
        case["var"]["endian"] = draw(st.sampled_from(["big", "little"]))
    return case


def wide_range_cases():
    """Values towards the ends of the 64-bit ranges: whole doubles above 2**63 read as unsigned integers, unsigned and
    signed 64-bit variables holding their extremes, each with and without a MissingValue."""
    dims = [{"name": "x", "size": 4, "dtype": "f8", "values": [1, 2, 3, 4], "attrs": {}}]
    rows = [("f8", "Positive Integer", [2.0 ** 63 + 4096, 1.5e19, 2.0 ** 64 - 2048, 7.25]), ("f8", "Positive Integer", [2.0 ** 63, 2.0 ** 62, 0.5, 3.0]),
            ("f8", "Integer", [2.0 ** 62, -2.0 ** 62, -2.0 ** 63, 7.75]), ("u8", "Positive Integer", [2 ** 63 + 5, 2 ** 64 - 3, 2 ** 63, 7]),
            ("i8", "Integer", [2 ** 63 - 1, -2 ** 63 + 1, 2 ** 53 + 1, -7]), ("f8", "Positive Float", [2.0 ** 63 + 4096, 1e300, 5e-324, 0.0])]
    for store, dt, data in rows:
        for mv in (None, 7, -9999 if not dt.startswith("Positive") else 3):
            yield {"dims": dims, "var": {"name": "v", "dtype": store, "data": data, "mask": None, "fill": None}, "datatype": dt, "missing": mv}


PARTS = {"write": check_write, "read": check_read}


def run_shard(ctx, rec):
    drive(ctx, rec, "write", write_cases(), check_write, ctx.n(700, 20000))
    drive(ctx, rec, "read", read_cases(), check_read, ctx.n(900, 20000), max_novel=8)
    drive_enum(ctx, rec, "read", wide_range_cases(), check_read, exhaustive=True, tag="read/wide_range")
