"""C07 -- arithmetic commands are correct for all numeric types and input orders."""
from __future__ import annotations

import itertools

import numpy

from hypothesis import strategies as st

from .. import arr as A
from .. import unit as U
from .. import modelslice as MS
from ..core import sstr, Failure, drive, drive_enum
from ..gen import arrays as G

ID = "C07"
LEVEL = "exploration"
DESIGN_REF = "DESIGN.md section 3, C07"
TECHNIQUE = "exhaustive dtype x order matrix + Hypothesis generation against an exact-rational reference; order-invariance metamorphic check; error-class oracle"
LEVEL_TEXT = (
    "Sum, WeightedSum, Multiply, AMinusB, ADividedByB, Minimum, Maximum, Mean, WeightedMean and Copy are compared cell "
    "by cell with an exact-rational reference on generated int64/float64 arrays (1-5 inputs, masks, zero divisors), "
    "the full {int,float}^n x n! order matrix is enumerated for n<=3 (thorough: n<=4), every ordering must give the "
    "same values and the same outcome kind, and shape/weight/empty-input faults must raise their specific error "
    "classes whose message renders."
    ' Weights are also handed over as numpy scalars; integer operands beyond 2^53 are included and integer-closed commands on all-integer inputs are compared exactly; weight vectors that cancel to zero are included; a whole-model part runs the commands over shared columns.'
)
LEVEL_TEXT += ' Added later: very large whole-number weights (totals near 2^63) and rounded shares; orderings compared within the forward error bound when cancellation occurs; producers handed over as Command objects of another program with the same result names.'
LEVEL_NOTE = "Integer overflow is outside the domain (lattice values are small); trusts numpy and vcheck/ref."
RULE = (
    "Cases: (matrix) every n-ary arithmetic command x n in 1..3 (thorough 1..4) x every int64/float64 assignment x "
    "three weight families, each run in every input order; (unit) Hypothesis: command, 1-5 inputs, dtype per input, "
    "dyadic lattice values with forced zeros/ties, masks, weights of ints/floats; (errors) mismatched shapes of rank "
    "1-3, wrong weight counts, empty input lists. Oracle: exact-rational reference per cell; division by an exact "
    "zero must be missing; all orderings equal within 1e-12 and same outcome kind; error class equality and "
    "sstr(exc) must not raise. Non-trivial: int and float inputs mixed with an int first, or a zero divisor, or n>=3, "
    "or an error case; distinct = digest of the case."
)
ASSUMPTIONS = [
    "values are small dyadic lattice points: integer overflow and float overflow are outside the domain",
    "float results accepted within the propagated error bound (>= 1e-9 relative floor)",
    "a zero weight sum is only required to give missing cells, not an error",
]

CMDS = ["Sum", "WeightedSum", "Multiply", "AMinusB", "ADividedByB", "Minimum", "Maximum", "Mean", "WeightedMean", "Copy"]
NARY = ["Sum", "WeightedSum", "Multiply", "Minimum", "Maximum", "Mean", "WeightedMean"]
WEIGHTED = ("WeightedSum", "WeightedMean")


def permuted(case, perm):
    c = dict(case)
    c["arrays"] = [case["arrays"][i] for i in perm]
    if "Weights" in case["params"] and len(case["params"]["Weights"]) == len(perm):
        p = dict(case["params"])
        p["Weights"] = [case["params"]["Weights"][i] for i in perm]
        c["params"] = p
    if case.get("aliases"):
        c["aliases"] = [sorted([perm.index(i), perm.index(j)]) for i, j in case["aliases"]]
    return c


def outcome_kind(o):
    return "ok" if o.status == "ok" else "err:" + A.exc_name(o.result)


def check_unit(case, rec):
    cmd = case["cmd"]
    o = U.evaluate(case)
    stats = {}
    fails = U.judge(o, rec, stats=stats)
    n = len(case["arrays"])
    dts = [s["dtype"] for s in case["arrays"]]
    mixed_int_first = n >= 2 and dts[0].startswith("int") and any(d.startswith("float") for d in dts)
    zero_div = cmd == "ADividedByB" and any(
        x == 0 and not (case["arrays"][1]["mask"] or [0] * len(case["arrays"][1]["data"]))[i]
        for i, x in enumerate(case["arrays"][1]["data"]))
    rec.label("cmd:" + cmd)
    if case.get("weights_as"):
        rec.label("weights_as_numpy_scalars:" + case["weights_as"])
    if case.get("aliases"):
        rec.label("same_result_listed_twice")
    if o.ref_kind == "expect":
        rec.label("error_case:" + o.expect, sample=case)
    if mixed_int_first:
        rec.label("mixed_int_first", sample=case if n == 2 else None)
    if zero_div:
        rec.label("zero_divisor", sample=case)
    if n >= 3:
        rec.label("n>=3")
    if mixed_int_first or zero_div or n >= 3 or o.ref_kind == "expect":
        rec.nontrivial_case(case)
    rec.label("cells_compared", n=stats.get("compared", 0))

    # order invariance: same values and same outcome kind for every ordering
    if cmd in NARY and 2 <= n <= 5 and o.ref_kind != "undefined":
        base_kind = outcome_kind(o)
        perms = list(itertools.permutations(range(n)))
        if n == 5:
            perms = perms[::7]
        for perm in perms:
            if perm == tuple(range(n)):
                continue
            po = U.evaluate(permuted(case, perm))
            kind = outcome_kind(po)
            rec.label("orderings_compared")
            if kind != base_kind:
                fails.append(Failure("%s|order_dependent:outcome" % o.sig,
                                     "order %r: %s, original order: %s" % (perm, kind, base_kind)))
                break
            if kind == "ok" and not U.result_equal(po.result, o.result, 1e-5 if "float32" in dts else 1e-12):
                # orderings of a floating sum may differ by the rounding of the operands at hand (cancellation: the
                # difference is then large relative to the result): both are right when each lies within the error
                # bound of the exact value and the same cells are missing
                same_mask = (isinstance(po.result, numpy.ndarray) and isinstance(o.result, numpy.ndarray) and po.result.shape == o.result.shape
                             and bool((numpy.ma.getmaskarray(po.result) == numpy.ma.getmaskarray(o.result)).all()))
                if o.ref_kind == "cells" and same_mask and not fails and not U.judge(po):
                    rec.label("orderings_equal_within_rounding_bound")
                    continue
                fails.append(Failure("%s|order_dependent:value" % o.sig, "order %r differs" % (perm,)))
                break
    return fails


# ---------------------------------------------------------------------- exhaustive dtype x order matrix

def matrix_arrays(dtypes):
    out = []
    for i, dt in enumerate(dtypes):
        if dt == "int64":
            data = [i + 1, -(i + 2), 0, 3 * (i + 1), 2, -1]
        else:
            data = [i + 1.5, -(i + 2.25), 0.0, 3.0 * (i + 1), 2.0, -0.5]
        mask = None if i % 2 == 0 else [0, 0, 0, 0, 0, 1]
        out.append({"data": data, "mask": mask, "dtype": dt})
    return out


def weight_families(n):
    ints = [k + 1 for k in range(n)]
    mixed = [(k + 1) if k % 2 == 0 else (k + 1) / 2.0 for k in range(n)]
    floats = [0.5 * (k + 1) for k in range(n)]
    int_then_frac = [1] + [0.5] * (n - 1)
    return [ints, mixed, floats, int_then_frac]


def matrix_cases(ctx):
    top = 3 if ctx.quick else 4
    for cmd in NARY:
        for n in range(1, top + 1):
            for dtypes in itertools.product(("int64", "float64"), repeat=n):
                arrays = matrix_arrays(dtypes)
                plist = [{"Weights": w} for w in weight_families(n)] if cmd in WEIGHTED else [{}]
                for params in plist:
                    yield {"cmd": cmd, "params": params, "arrays": arrays, "shape": [6]}
    for cmd in ("AMinusB", "ADividedByB"):
        for dtypes in itertools.product(("int64", "float64"), repeat=2):
            arrays = matrix_arrays(dtypes)
            yield {"cmd": cmd, "params": {}, "arrays": arrays, "shape": [6]}
            yield {"cmd": cmd, "params": {}, "arrays": arrays[::-1], "shape": [6]}
    for dt in ("int64", "float64"):
        yield {"cmd": "Copy", "params": {}, "arrays": matrix_arrays([dt, dt])[1:], "shape": [6]}
    # integers beyond the range in which doubles are exact (2^53), within the 64-bit integers: integer arithmetic is exact
    big = [{"data": [100000001, 3, -94906267, 9007199254740993], "mask": None, "dtype": "int64"},
           {"data": [100000001, -94906267, 94906267, 1], "mask": [0, 0, 0, 0], "dtype": "int64"},
           {"data": [1, 2, -1, 1], "mask": None, "dtype": "int32"}]
    for cmd in ("Multiply", "Sum", "Minimum", "Maximum", "WeightedSum"):
        for k in (1, 2, 3):
            for arrays in ([big[j] for j in order] for order in itertools.permutations(range(k))):
                yield {"cmd": cmd, "params": {"Weights": [1, 3, -2][:k]} if cmd == "WeightedSum" else {}, "arrays": arrays, "shape": [4]}
    for a, b in ((0, 1), (1, 0), (0, 2)):
        yield {"cmd": "AMinusB", "params": {}, "arrays": [big[a], big[b]], "shape": [4]}
    yield {"cmd": "Copy", "params": {}, "arrays": [big[0]], "shape": [4]}
    # very large whole-number weights (a total near the 64-bit limits) on floating columns, and shares that add up
    # to nearly one: the mean is the weighted sum over the exact total
    for weights in ([2 ** 62, 2 ** 62], [2 ** 63 - 1, 1], [2 ** 62] * 3, [2 ** 61, 3 * 2 ** 61, 1], [0.6, 0.400004], [0.333333] * 3, [0.5, 0.4999999]):
        for cmd in ("WeightedMean", "WeightedSum"):
            arrays = matrix_arrays(["float64"] * len(weights))
            for order in itertools.permutations(range(len(weights))):
                yield {"cmd": cmd, "params": {"Weights": [weights[j] for j in order]}, "arrays": [arrays[j] for j in order], "shape": [6]}


# ---------------------------------------------------------------------- error cases

@st.composite
def error_case(draw):
    kind = draw(st.sampled_from(["shape", "shape", "weights", "empty"]))
    if kind == "shape":
        cmd = draw(st.sampled_from(NARY + ["AMinusB", "ADividedByB"]))
        n = 2 if cmd in ("AMinusB", "ADividedByB") else draw(st.integers(2, 4))
        shp = [draw(G.shapes(max_cells=24)) for _ in range(n)]
        if all(s == shp[0] for s in shp):
            shp[-1] = shp[-1] + [2] if len(shp[-1]) < 3 else [shp[-1][0] + 1] + shp[-1][1:]
        arrays = []
        for s in shp:
            size = 1
            for d in s:
                size *= d
            spec = draw(G.array_spec(size, draw(st.sampled_from(["int64", "float64"])), mask_kind="none"))
            spec["shape"] = s
            arrays.append(spec)
        params = {"Weights": [1] * n} if cmd in WEIGHTED else {}
        return {"cmd": cmd, "params": params, "arrays": arrays, "shape": None, "fault": "shape"}
    if kind == "weights":
        cmd = draw(st.sampled_from(list(WEIGHTED)))
        n = draw(st.integers(1, 4))
        k = draw(st.integers(0, 5).filter(lambda k: k != n))
        arrays = [draw(G.array_spec(4, "float64")) for _ in range(n)]
        return {"cmd": cmd, "params": {"Weights": [1] * k}, "arrays": arrays, "shape": [4], "fault": "weights"}
    cmd = draw(st.sampled_from(NARY))
    params = {"Weights": []} if cmd in WEIGHTED else {}
    return {"cmd": cmd, "params": params, "arrays": [], "shape": [0], "fault": "empty"}


def check_model(model, rec):
    """Whole models of arithmetic commands over shared integer and float columns read from a file."""
    return MS.model_failures(model, rec, lambda sig, cmd: cmd in CMDS, "model")


def check_foreign(case, rec):
    """Two programs alive at once that use the same result names for different data (one model, two sites); a command of
    the second is handed producers of the *first* as Command objects: it computes with the results it was handed."""
    from mpilot.program import EEMS_CSV_LIBRARIES, Program

    cmd = case["cmd"]
    o = U.evaluate(case)
    if o.status != "ok" or o.ref_kind != "cells" or case.get("aliases") or case.get("inputs_fuzzy"):
        return []
    progs = [Program(libraries=EEMS_CSV_LIBRARIES), Program(libraries=EEMS_CSV_LIBRARIES)]
    for k, prog in enumerate(progs):
        for i, spec in enumerate(case["arrays"]):
            arr = A.make_array(spec, case.get("shape"))
            prog.commands["P%d" % i] = A.stub("P%d" % i, arr if k == 0 else arr + 3)
    handed = [progs[0].commands["P%d" % i] for i in range(len(case["arrays"]))]
    pn = A.INPUT_PARAM[cmd]
    args = {pn[0]: handed} if cmd in NARY else {p: c for p, c in zip(pn, handed)}
    args.update(case["params"])
    try:
        progs[1].add_command(progs[1].find_command_class(cmd), "C", args)
        progs[1].run()
        res = progs[1].commands["C"].result
    except Exception as exc:
        return [Failure("%s|producers_of_another_program|raises:%s" % (o.sig, A.exc_name(exc)), repr(exc)[:300])]
    rec.label("producers_of_another_program")
    rec.nontrivial_case(["foreign", case])
    if not (isinstance(res, numpy.ndarray) and U.result_equal(res, o.result, 0.0)):
        return [Failure("%s|producers_of_another_program|value" % o.sig, "%r, the command on the results it was handed gives %r" % (res, o.result))]
    return []


PARTS = {"unit": check_unit, "model": check_model, "foreign": check_foreign}


@st.composite
def unit_cases(draw):
    case = draw(G.unit_case(CMDS, max_rank=2, dtypes=("float64", "int64", "float64", "int64", "float32", "int32"), tiny=True))
    if case["cmd"] == "Copy" and draw(st.booleans()):
        case["inputs_fuzzy"] = True  # Copy takes any data result, also one declared fuzzy by its producer
    if case["cmd"] in WEIGHTED and draw(st.integers(0, 2)) == 0:
        case["weights_as"] = draw(st.sampled_from(["float32", "float64", "float16", "int64", "int32"]))
    return case


def run_shard(ctx, rec):
    drive(ctx, rec, "model", MS.model_cases(cmds=CMDS), check_model, ctx.n(1000, 20000))
    drive_enum(ctx, rec, "unit", matrix_cases(ctx), check_unit, exhaustive=True, tag="unit/dtype_order_matrix")
    drive(ctx, rec, "unit", unit_cases(), check_unit, ctx.n(3000, 100000))
    drive(ctx, rec, "unit", error_case(), check_unit, ctx.n(600, 12000), tag="unit/errors")
    drive(ctx, rec, "foreign", G.unit_case(CMDS, max_rank=2, dtypes=("float64", "int64")), check_foreign, ctx.n(600, 8000))
