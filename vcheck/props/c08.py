"""C08 -- fuzzy conversions and normalisations compute their documented mappings."""
from __future__ import annotations

import numpy
from hypothesis import strategies as st

from .. import arr as A
from .. import unit as U
from .. import modelslice as MS
from ..core import drive_enum
from ..core import sstr, Failure, drive
from ..gen import arrays as G

ID = "C08"
LEVEL = "exploration"
DESIGN_REF = "DESIGN.md section 3, C08"
TECHNIQUE = "Hypothesis generation against an exact-rational reference of each mapping, plus variant-vs-Normalize differential, CvtFromFuzzy inverse and monotonicity relations"
LEVEL_TEXT = (
    "Each of the 14 conversion/normalisation commands present in the tree is run on generated int64/float64 arrays "
    "(masks, ties, thresholds/categories/control points coinciding with data, any control-point order, both "
    "directions) and compared cell by cell with a reference mapping in exact rationals; independently every "
    "CvtToFuzzy variant is compared with clamp(Normalize variant on [-1,+1]), CvtFromFuzzy is checked to invert "
    "CvtToFuzzy between the thresholds, and monotone mappings must preserve the order of cells. Sampled, not exhaustive."
    ' Value pools that a tolerant comparison would conflate (250001/250002, 1/1.000001) and a whole-model part are included.'
)
LEVEL_TEXT += ' Added later: a retry part (a conversion fails on a constant field, the field is replaced by deleting and re-adding it, the program is run again).'
LEVEL_NOTE = (
    "The property text counts 17 commands; the tree has 14 conversion/normalisation classes. NormalizeZScore with omitted "
    "z-thresholds is not asserted (docs and code disagree; the property text does not cover it). Decisions within the "
    "rounding bound of a whole-array statistic are skipped and counted."
)
RULE = (
    "Hypothesis draws a command among the 14, an input array (1-12 cells, rank 1-2, int64/float64, dyadic lattice "
    "values from a small pool so ties and exact hits on thresholds occur, masks with payloads) and parameters from the "
    "documented domain (threshold pairs in either order or omitted with either direction, category tables, curves "
    "with 1-6 control points in any order, z vectors, IgnoreZeros, StartVal<EndVal). Oracles: reference mapping per "
    "cell within the propagated error bound; CvtToFuzzyX == clamp(NormalizeX(...,-1,+1)); "
    "CvtFromFuzzy(CvtToFuzzy(x,T,F),T,F)==x between the thresholds; order preservation for monotone mappings. "
    "Non-trivial: a case with >=2 distinct valid cells whose reference is defined and in which at least one cell lies "
    "strictly inside a segment/range or exactly on a threshold/control point/category; distinct = digest of the case."
)
ASSUMPTIONS = [
    "arrays have at least two distinct valid values (the property's own precondition); fewer -> not asserted, counted",
    "parameters are drawn from the documented domains (unique raw values tested for the DuplicateRawValues error; "
    "MeanToMid gets five values; z vectors distinct; StartVal < EndVal for the z-score normalisation)",
    "float results accepted within the propagated error bound (>= 1e-9 relative floor)",
]

CMDS = [
    "CvtToFuzzy", "CvtFromFuzzy", "CvtToBinary", "CvtToFuzzyZScore", "CvtToFuzzyCat", "CvtToFuzzyCurve",
    "CvtToFuzzyMeanToMid", "CvtToFuzzyCurveZScore", "Normalize", "NormalizeZScore", "NormalizeCat", "NormalizeCurve",
    "NormalizeMeanToMid", "NormalizeCurveZScore",
]
VARIANT = {
    "CvtToFuzzyZScore": "NormalizeZScore", "CvtToFuzzyCat": "NormalizeCat", "CvtToFuzzyCurve": "NormalizeCurve",
    "CvtToFuzzyMeanToMid": "NormalizeMeanToMid", "CvtToFuzzyCurveZScore": "NormalizeCurveZScore",
}


def to_normalize_params(cmd, params):
    p = {}
    for k, v in params.items():
        if k == "FuzzyValues":
            p["NormalValues"] = v
        elif k == "DefaultFuzzyValue":
            p["DefaultNormalValue"] = v
        else:
            p[k] = v
    if cmd == "CvtToFuzzyZScore":
        p.setdefault("TrueThresholdZScore", 1)
        p.setdefault("FalseThresholdZScore", -1)
        p["StartVal"] = -1
        p["EndVal"] = 1
    return p


def clamp_arr(a):
    d = numpy.clip(numpy.ma.getdata(a).astype(float), -1.0, 1.0)
    return numpy.ma.array(d, mask=numpy.ma.getmaskarray(a))


def monotone_kind(cmd, params):
    if cmd in ("CvtToFuzzy", "CvtFromFuzzy", "CvtToBinary", "Normalize", "NormalizeZScore", "CvtToFuzzyZScore"):
        return True
    if cmd in ("NormalizeCurve", "CvtToFuzzyCurve"):
        vals = params.get("FuzzyValues", params.get("NormalValues"))
        pts = sorted(zip(params["RawValues"], vals))
        ys = [y for _, y in pts]
        return all(a <= b for a, b in zip(ys, ys[1:])) or all(a >= b for a, b in zip(ys, ys[1:]))
    return False


def check_monotone(o, sig):
    arr, res = o.arrays[0], o.result
    m = numpy.ma.getmaskarray(arr) | numpy.ma.getmaskarray(res)
    xs = numpy.ma.getdata(arr)[~m]
    if xs.dtype.kind not in "iu":
        xs = xs.astype(float)  # (64-bit integers are compared as they are: beyond 2^53 neighbours collapse as doubles)
    ys = numpy.ma.getdata(res)[~m].astype(float)
    if len(xs) < 2:
        return []
    order = numpy.argsort(xs, kind="stable")
    xs, ys = xs[order], ys[order]
    tol = 1e-12 * max(1.0, float(numpy.abs(ys).max()))
    # equal inputs -> equal outputs
    for i in range(len(xs) - 1):
        if xs[i] == xs[i + 1] and abs(ys[i] - ys[i + 1]) > tol:
            return [Failure(sig + "|monotone:equal_inputs_differ", "x=%r -> %r and %r" % (xs[i], ys[i], ys[i + 1]))]
    d = numpy.diff(ys)
    if (d >= -tol).all() or (d <= tol).all():
        return []
    return [Failure(sig + "|monotone:order_not_preserved", "xs=%r ys=%r" % (xs.tolist(), ys.tolist()))]


def check_unit(case, rec):
    cmd, params = case["cmd"], case["params"]
    o = U.evaluate(case)
    # the property's precondition
    cells = A.cells_of(o.arrays[0])
    distinct = len(set(c.v for c in cells if c is not None))
    if distinct < 2:
        rec.exclude("fewer_than_two_distinct_valid_values")
        return []
    stats = {}
    fails = U.judge(o, rec, stats=stats)
    rec.label("cmd:" + cmd)
    rec.label("cells_compared", n=stats.get("compared", 0))
    rec.label("cells_unstable_skipped", n=stats.get("unstable", 0))
    rec.label("cells_loose_bound", n=stats.get("loose", 0))
    if o.ref_kind == "expect":
        rec.label("error_case:" + o.expect, sample=case)
    if o.ref_kind == "cells":
        vals = [c for c in o.ref if c is not None and not (c is U.R.UNSTABLE)]
        if vals:
            rec.nontrivial_case(case)
            rec.label("dtype:" + case["arrays"][0]["dtype"], sample=case if len(cells) <= 5 else None)
    if o.status != "ok":
        return fails

    # a second conversion of the same input must again be the mapping of the data as it was given
    if o.ref_kind == "cells":
        st_again, r_again = A.run_command(cmd, o.arrays, params)
        rec.label("reused_input")
        if st_again == "err":
            fails.append(Failure("%s|reused_input:raises:%s" % (o.sig, A.exc_name(r_again)), sstr(r_again)[:200]))
        else:
            again = A.compare(r_again, o.ref, o.arrays[0].shape, o.sig + "|reused_input")
            fails.extend(again)
            if again:
                return fails

    # variant == clamp(Normalize variant on [-1, +1])
    if cmd in VARIANT and o.ref_kind != "undefined":
        st2, r2 = A.run_command(VARIANT[cmd], o.arrays, to_normalize_params(cmd, params), fuzzy_inputs=False)
        rec.label("differential:variant_vs_normalize")
        if st2 == "err":
            fails.append(Failure("%s|variant_differs:normalize_raises:%s" % (o.sig, A.exc_name(r2)), sstr(r2)[:200]))
        elif not U.result_equal(clamp_arr(r2), o.result, 1e-12):
            fails.append(Failure("%s|variant_differs" % o.sig, "clamp(%s) != %s" % (VARIANT[cmd], cmd)))
    if cmd == "CvtToFuzzy" and "TrueThreshold" not in params and "FalseThreshold" not in params and params.get(
            "Direction", "LowToHigh") == "LowToHigh" and o.ref_kind == "cells":
        st2, r2 = A.run_command("Normalize", o.arrays, {"StartVal": -1, "EndVal": 1}, fuzzy_inputs=False)
        rec.label("differential:cvttofuzzy_vs_normalize")
        if st2 == "err" or not U.result_equal(clamp_arr(r2), o.result, 1e-12):
            fails.append(Failure("%s|variant_differs" % o.sig, "CvtToFuzzy(defaults) != Normalize(-1,+1)"))

    # CvtFromFuzzy inverts CvtToFuzzy between the thresholds
    if cmd == "CvtToFuzzy" and "TrueThreshold" in params and "FalseThreshold" in params and o.ref_kind == "cells":
        t, f = params["TrueThreshold"], params["FalseThreshold"]
        st2, back = A.run_command("CvtFromFuzzy", [o.result], {"TrueThreshold": t, "FalseThreshold": f}, fuzzy_inputs=True)
        rec.label("inverse:from_fuzzy")
        if st2 == "err":
            fails.append(Failure("%s|inverse_raises:%s" % (o.sig, A.exc_name(back)), sstr(back)[:200]))
        else:
            lo, hi = min(t, f), max(t, f)
            m = numpy.ma.getmaskarray(o.arrays[0])
            x = numpy.ma.getdata(o.arrays[0]).astype(float)
            y = numpy.ma.getdata(back).astype(float)
            inside = (~m) & (x >= lo) & (x <= hi)
            if numpy.ma.getmaskarray(back)[inside].any() or (
                    numpy.abs(x[inside] - y[inside]) > 1e-9 * max(1.0, abs(t), abs(f))).any():
                fails.append(Failure("%s|inverse_differs" % o.sig, "x=%r back=%r" % (x[inside].tolist(), y[inside].tolist())))

    if monotone_kind(cmd, params) and o.ref_kind in ("cells",):
        rec.label("monotone_checked")
        fails.extend(check_monotone(o, o.sig))
    return fails


def check_model(model, rec):
    """Whole models of conversion commands over shared integer and float columns read from a file."""
    return MS.model_failures(model, rec, lambda sig, cmd: cmd in CMDS, "model")


def check_retry(case, rec):
    """A conversion that failed on a field it cannot map (every valid cell the same: no range, no spread), in a program
    whose field is then replaced the documented way (deleted and added again under its name) and which is run again:
    the conversion now maps the field that is there."""
    from mpilot.exceptions import MPilotError
    from mpilot.program import EEMS_CSV_LIBRARIES, Program

    cmd, params = case["cmd"], case["params"]
    o = U.evaluate(case)
    if o.ref_kind != "cells" or o.status != "ok":
        return []
    spec = case["arrays"][0]
    valid = [x for x, m in zip(spec["data"], spec["mask"] or [0] * len(spec["data"])) if not m]
    if not valid:
        return []
    flat = dict(spec, data=[valid[0]] * len(spec["data"]))
    fuzzy_in = cmd in U.R.FUZZY_INPUT
    prog = Program(libraries=EEMS_CSV_LIBRARIES)
    prog.commands["P"] = A.stub("P", A.make_array(flat, case.get("shape")), fuzzy_in)
    prog.add_command(prog.find_command_class(cmd), "C", dict({A.INPUT_PARAM[cmd][0]: "P"}, **params))
    try:
        prog.run()
        return []  # (the constant field was mapped: the conversion is finished and stays as it is)
    except MPilotError:
        pass
    except Exception:
        return []  # (C13 owns other exceptions)
    del prog.commands["P"]
    prog.commands["P"] = A.stub("P", A.make_array(spec, case.get("shape")), fuzzy_in)
    rec.label("retry_after_field_replaced:" + cmd)
    rec.nontrivial_case(["retry", case])
    try:
        prog.run()
        res = prog.commands["C"].result
    except Exception as exc:
        return [Failure("%s|retry|raises:%s" % (o.sig, A.exc_name(exc)), "first attempt on a constant field failed, field replaced, second run: %s" % sstr(exc)[:300])]
    if not (isinstance(res, numpy.ndarray) and U.result_equal(res, o.result, 0.0)):
        return [Failure("%s|retry|value" % o.sig, "after the constant field was replaced the conversion gives %r, on a fresh program %r" % (res, o.result))]
    return []


PARTS = {"unit": check_unit, "model": check_model, "retry": check_retry}


def big_integer_cases():
    """64-bit integers beyond 2^53 (time stamps in nanoseconds, parcel ids): neighbours that collapse as doubles.  The
    threshold test and the category lookup only compare their cells, so they are exact on them."""
    base = 2 ** 53
    cells = [base + 1, base + 3, base + 5, base + 7, base + 4, -(base + 3)]
    arr = {"data": cells, "mask": [0, 0, 0, 0, 0, 1], "dtype": "int64"}
    for thr in (base + 2, base + 3, base + 4, base + 5, base + 7, base + 8):
        for direction in ("LowToHigh", "HighToLow"):
            yield {"cmd": "CvtToBinary", "params": {"Threshold": thr, "Direction": direction}, "arrays": [arr], "shape": [6]}
    for cmd, vals, dflt in (("NormalizeCat", "NormalValues", "DefaultNormalValue"), ("CvtToFuzzyCat", "FuzzyValues", "DefaultFuzzyValue")):
        for raws in ([base + 3, base + 5], [base + 4, base + 2, base + 7], [base + 1]):
            yield {"cmd": cmd, "params": {"RawValues": raws, vals: [0.5, -0.5, 0.25][:len(raws)], dflt: -1}, "arrays": [arr], "shape": [6]}


def run_shard(ctx, rec):
    drive_enum(ctx, rec, "unit", big_integer_cases(), check_unit, exhaustive=True, tag="unit/big_integers")
    drive(ctx, rec, "model", MS.model_cases(cmds=CMDS + ["Copy", "Sum"]), check_model, ctx.n(1000, 20000))
    drive(ctx, rec, "unit", G.unit_case(CMDS, max_rank=2, min_cells=2, two_distinct=True, close=True,
                                       dtypes=("float64", "int64", "float64", "int64", "uint64")), check_unit, ctx.n(6000, 200000))
    drive(ctx, rec, "retry", G.unit_case(CMDS, max_rank=2, min_cells=2, two_distinct=True, dtypes=("float64", "int64")), check_retry, ctx.n(1500, 20000))
