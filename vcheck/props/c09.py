"""C09 -- computed results are immutable: commands never modify their inputs."""
from __future__ import annotations

import os
import shutil
import tempfile

import numpy
from hypothesis import strategies as st

from .. import arr as A
from ..core import peek, Failure, drive
from ..gen import arrays as G
from ..ref import commands as R

ID = "C09"
LEVEL = "exploration"
DESIGN_REF = "DESIGN.md section 3, C09"
TECHNIQUE = "model-based operation sequences (Hypothesis-generated consumer histories over a pool of results) with a snapshot invariant checked after every step"
LEVEL_TEXT = (
    "A pool of 2-5 producer results (fuzzy and non-fuzzy, int64/float64, masked and nomask, one shape per history, "
    "rank 1-3) is consumed by generated sequences of up to 25 steps drawn from all 30 data commands (including the "
    "single-input forms of the n-ary operators), both EEMSWrite commands and PrintVars to a file; each new result "
    "joins the pool. After every step every pool member must still have the shape, element type, mask and bit-identical "
    "non-missing values recorded when it was produced. A second slice runs generated models through Program.run and "
    "compares every result with a snapshot taken the moment it was produced. Sampled histories, not exhaustive."
)
LEVEL_TEXT += ' Added later: results without any axis (shape ()), parameter sets beyond the fuzzy range.'
LEVEL_NOTE = "The payload hidden under missing cells is not part of the statement and is ignored; snapshots are deep copies taken by the harness."
RULE = (
    "Hypothesis draws the producers and a list of steps (command, picks into the current pool respecting fuzziness, "
    "parameters; re-read of a result; writers). Oracle: snapshot invariant after every step for every pool member "
    "(shape, dtype, mask, bytes of the non-missing cells). Non-trivial: some result is consumed at least twice, at "
    "least once by a single-input n-ary form and at least once by a command with an in-place tail "
    "(insure_fuzzy / += / /=); distinct = digest of the history."
)
ASSUMPTIONS = [
    "steps that raise (e.g. undefined parameters for the drawn data) still count as consumers: the invariant is checked after them too",
    "hidden payload under the mask may change (not part of the property)",
]

IN_PLACE_TAIL = set(R.FUZZY) | {"NormalizeZScore", "CvtFromFuzzy", "NormalizeCurve", "NormalizeCurveZScore",
                                "NormalizeMeanToMid", "NormalizeCat"}
SINGLE_FORMS = ("Sum", "Multiply", "Minimum", "Maximum", "Mean", "FuzzyOr", "FuzzyAnd", "FuzzyUnion",
                "FuzzySelectedUnion", "WeightedSum", "WeightedMean", "FuzzyWeightedUnion")
WRITERS = ("csv_write", "netcdf_write", "print_vars")


def snapshot(arr):
    m = numpy.ma.getmaskarray(arr).copy()
    d = numpy.ma.getdata(arr)
    return (tuple(arr.shape), str(d.dtype), m, d[~m].tobytes(), isinstance(arr, numpy.ma.MaskedArray))


def unchanged(snap, arr):
    if not isinstance(arr, numpy.ndarray):
        return "not an array any more"
    if tuple(arr.shape) != snap[0]:
        return "shape %r -> %r" % (snap[0], tuple(arr.shape))
    d = numpy.ma.getdata(arr)
    if str(d.dtype) != snap[1]:
        return "dtype %s -> %s" % (snap[1], d.dtype)
    m = numpy.ma.getmaskarray(arr)
    if not (m == snap[2]).all():
        return "mask changed"
    if d[~m].tobytes() != snap[3]:
        return "non-missing values changed"
    return None


def make_template(path, shape):
    from netCDF4 import Dataset

    with Dataset(path, "w") as ds:
        dims = []
        for i, n in enumerate(shape):
            name = "d%d" % i
            ds.createDimension(name, n)
            v = ds.createVariable(name, "f8", (name,))
            v[:] = numpy.arange(n, dtype=float)
            dims.append(name)
        t = ds.createVariable("template", "f8", tuple(dims))
        t[:] = numpy.zeros(shape)


def check_history(case, rec):
    from mpilot.arguments import Argument

    shape = case["shape"]
    pool = []  # (command, fuzzy, snapshot)
    for i, p in enumerate(case["producers"]):
        arr = A.make_array(p["spec"], p["shape"] if "shape" in p else shape)
        if "shape" in p:
            rec.label("producer_with_other_shape")
        cmd = A.stub("P%d" % i, arr, p["fuzzy"])
        pool.append([cmd, p["fuzzy"], snapshot(arr)])
    consumed = {}
    single_consumed = set()
    tail_consumed = set()
    tmp = None
    fails = []
    try:
        for si, step in enumerate(case["steps"]):
            kind = step["cmd"]
            want_fuzzy = kind in R.FUZZY_INPUT
            if kind in WRITERS or kind == "reread" or kind == "Copy":
                cands = list(range(len(pool)))
            else:
                cands = [i for i, e in enumerate(pool) if e[1] == want_fuzzy]
            if not cands:
                rec.exclude("step_skipped_no_compatible_result")
                continue
            picks = [cands[k % len(cands)] for k in step["picks"]]
            producers = [pool[i][0] for i in picks]
            new = None
            try:
                if kind == "reread":
                    producers[0].result
                elif kind in WRITERS:
                    if tmp is None:
                        tmp = tempfile.mkdtemp(prefix="vcheck-c09-")
                    if kind == "csv_write":
                        from mpilot.libraries.eems.csv.io import EEMSWrite

                        w = EEMSWrite("W%d" % si, [Argument("OutFileName", os.path.join(tmp, "o%d.csv" % si), 1),
                                                  Argument("OutFieldNames", producers, 2)], lineno=1)
                    elif kind == "netcdf_write":
                        from mpilot.libraries.eems.netcdf.io import EEMSWrite

                        tpl = os.path.join(tmp, "tpl.nc")
                        if not os.path.exists(tpl):
                            make_template(tpl, shape)
                        w = EEMSWrite("W%d" % si, [Argument("OutFileName", os.path.join(tmp, "o%d.nc" % si), 1),
                                                  Argument("OutFieldNames", producers, 2),
                                                  Argument("DimensionFileName", tpl, 3),
                                                  Argument("DimensionFieldName", "template", 4)], lineno=1)
                    else:
                        from mpilot.libraries.eems.basic import PrintVars

                        w = PrintVars("W%d" % si, [Argument("InFieldNames", producers, 1),
                                                   Argument("OutFileName", os.path.join(tmp, "p%d.txt" % si), 2)], lineno=1)
                    w.result
                else:
                    n_in = len(A.INPUT_PARAM[kind]) if kind not in R.NARY else len(producers)
                    producers = producers[:n_in] if kind not in R.NARY else producers
                    while len(producers) < n_in:
                        producers.append(producers[-1])
                    picks = picks[:len(producers)] + [picks[-1]] * (len(producers) - len(picks))
                    command = A.build_command(kind, producers, step["params"], name="S%d" % si)
                    res = command.result
                    if isinstance(res, numpy.ndarray):
                        new = [command, kind in R.FUZZY, snapshot(res)]
            except Exception as exc:
                rec.label("step_raised")
            for i in picks:
                consumed[i] = consumed.get(i, 0) + 1
                if kind in SINGLE_FORMS and len(set(picks)) == 1 and len(picks) == 1:
                    single_consumed.add(i)
                if kind in IN_PLACE_TAIL:
                    tail_consumed.add(i)
            rec.label("step:" + ("writer" if kind in WRITERS else kind if kind == "reread" else "command"))
            # invariant over the whole pool
            for i, (cmd, fz, snap) in enumerate(pool):
                why = unchanged(snap, peek(cmd))
                if why:
                    src = "producer" if i < len(case["producers"]) else "result of " + type(cmd).__name__
                    fails.append(Failure("mutated_by:%s|%s|%s" % (kind, src.split(" ")[0], why.split(" ")[0]),
                                         "step %d (%s on %r) changed pool member %d (%s): %s" % (si, kind, picks, i, src, why)))
                    return fails
            if new is not None:
                pool.append(new)
    finally:
        if tmp:
            shutil.rmtree(tmp, ignore_errors=True)
    if any(consumed.get(i, 0) >= 2 and i in single_consumed and i in tail_consumed for i in consumed):
        rec.nontrivial_case(case)
        rec.label("nontrivial_history", sample=case if len(case["steps"]) <= 4 and len(case["producers"][0]["spec"]["data"]) <= 3 else None)
    rec.label("history_len:%d" % (len(case["steps"]) // 5 * 5))
    return fails


CONSUMERS = list(R.ALL)


@st.composite
def step(draw):
    kind = draw(st.sampled_from(CONSUMERS + CONSUMERS + list(SINGLE_FORMS) + list(WRITERS) + ["reread"]))
    if kind in R.NARY:
        n = draw(st.sampled_from([1, 1, 2, 3, 4]))
        if kind == "FuzzyXOr":
            n = max(n, 2)
    elif kind in R.BINARY:
        n = 2
    elif kind in WRITERS:
        n = draw(st.integers(1, 3))
    else:
        n = 1
    picks = draw(st.lists(st.integers(0, 11), min_size=n, max_size=n))
    params = {}
    if kind in R.ALL:
        # (one time in four with values beyond the fuzzy range: defaults, category and curve values of any size are admissible)
        params = draw(G.params_for(kind, n, [0.5, -0.25, 1.0, 0.0], wild=draw(st.integers(0, 3)) == 0))
        if draw(st.integers(0, 5)) == 0:
            # parameters at the ends of the double range: whatever the command computes from them, its inputs stay as they are
            extreme = st.sampled_from([1e308, -1e308, 5e307, 1e-308, 1e20, 0.0, -0.0])
            params = {k: (draw(extreme) if isinstance(v, (int, float)) and not isinstance(v, bool) else
                          [draw(extreme) if isinstance(x, (int, float)) and not isinstance(x, bool) and draw(st.booleans()) else x for x in v] if isinstance(v, list) else v)
                      for k, v in params.items() if k != "NumberToConsider"}
            if "NumberToConsider" in draw(G.params_for(kind, n, [0.5])) if kind == "FuzzySelectedUnion" else False:
                params["NumberToConsider"] = 1
    if kind in IDENTITY_PARAMS and draw(st.integers(0, 5)) == 0:
        # the parameter values under which the mapping changes nothing (the documented defaults, unit weights): a
        # command that then hands its input back, or works on it directly, shows here
        params = dict(params, **IDENTITY_PARAMS[kind])
        if "Weights" in params:
            params["Weights"] = [1] * n
    return {"cmd": kind, "picks": picks, "params": params}


IDENTITY_PARAMS = {
    "CvtToFuzzy": {"TrueThreshold": 1, "FalseThreshold": -1}, "CvtFromFuzzy": {"TrueThreshold": 1, "FalseThreshold": -1},
    "Normalize": {"StartVal": 0, "EndVal": 1}, "CvtToFuzzyZScore": {"TrueThresholdZScore": 1, "FalseThresholdZScore": -1},
    "WeightedSum": {"Weights": []}, "WeightedMean": {"Weights": []}, "FuzzyWeightedUnion": {"Weights": []},
    "FuzzySelectedUnion": {"TruestOrFalsest": "Truest", "NumberToConsider": 1},
    "NormalizeCurve": {"RawValues": [-8, 8], "NormalValues": [-8, 8]}, "CvtToFuzzyCurve": {"RawValues": [-1, 1], "FuzzyValues": [-1, 1]},
}


@st.composite
def history(draw):
    shape = draw(G.shapes(max_cells=12, max_rank=3))
    if draw(st.integers(0, 11)) == 0:
        shape = []  # results without any axis (what a scalar variable of a NetCDF file is read as): one cell
    size = 1
    for d in shape:
        size *= d
    producers = []
    k = draw(st.integers(2, 5))
    for i in range(k):
        fuzzy = i == 0 or draw(st.booleans())
        if i == 1:
            fuzzy = False
        dtype = "float64" if fuzzy else draw(st.sampled_from(["float64", "int64"]))
        spec = draw(G.array_spec(size, dtype, fuzzy=fuzzy, two_distinct=False) if False else G.array_spec(size, dtype, fuzzy=fuzzy))
        prod = {"spec": spec, "fuzzy": fuzzy}
        # a few producers hold the same cells under another shape (an extra or a dropped length-1 axis, flattened,
        # axes reversed): consumers reject the mixture or not, but may not touch the stored results either way
        other = draw(st.sampled_from([None] * 6 + ["lead1", "trail1", "squeeze", "flat", "rev", "scalar"]))
        alt = {"lead1": [1] + list(shape), "trail1": list(shape) + [1], "squeeze": [d for d in shape if d != 1] or [1],
               "flat": [size], "rev": list(shape)[::-1], "scalar": [] if size == 1 else None}.get(other)
        if alt is not None and alt != list(shape) and i > 0:
            prod["shape"] = alt
        producers.append(prod)
    nsteps = draw(st.sampled_from([1, 2, 3, 5, 8, 12, 16, 20, 25]))
    steps = draw(st.lists(step(), min_size=nsteps, max_size=nsteps))
    return {"shape": shape, "producers": producers, "steps": steps}


# ----------------------------------------------------------------------------------- program-level slice

_SNAP = {}
_WRAPPED = set()


def install_snapshot_wrappers():
    """Wrap Command.run once: the moment a command finishes, snapshot its result."""
    from mpilot.commands import Command

    if "run" in _WRAPPED:
        return
    orig = Command.run

    def run(self):
        was = self.is_finished
        orig(self)
        if not was and self.is_finished and isinstance(peek(self), numpy.ndarray):
            _SNAP[id(self)] = (self.result_name, type(self).__name__, snapshot(peek(self)))

    Command.run = run
    _WRAPPED.add("run")


def check_program(model, rec):
    """Run a generated model through Program.run (shared intermediates, writers attached) and compare every result
    at the end with the snapshot taken the moment it was produced."""
    from mpilot.program import Program

    from ..gen import models as M

    install_snapshot_wrappers()
    tmp = tempfile.mkdtemp(prefix="vcheck-c09-")
    try:
        M.write_table(model, os.path.join(tmp, "input.csv"))
        names = [n["name"] for n in model["nodes"]]
        extra = ['WAll = EEMSWrite(OutFileName = "all.csv", OutFieldNames = [%s])' % ", ".join(names),
                 'PAll = PrintVars(InFieldNames = [%s], OutFileName = "all.txt")' % ", ".join(names)]
        text = M.source(model, extra_lines=extra)
        _SNAP.clear()
        try:
            prog = Program.from_source(text, working_dir=tmp)
            prog.run()
        except Exception as exc:
            rec.exclude("model_does_not_run:%s" % type(exc).__name__)
        fails = []
        try:
            cmds = prog.commands
        except NameError:
            return []
        consumers = {}
        for nd in model["nodes"]:
            for i in nd.get("inputs", []):
                consumers.setdefault(i, []).append(nd["cmd"])
        for name in names:
            c = cmds.get(name)
            if c is None or id(c) not in _SNAP:
                continue
            _, cls, snap = _SNAP[id(c)]
            why = unchanged(snap, peek(c))
            if why:
                fails.append(Failure("program:mutated_result_of:%s|%s" % (cls, why.split(" ")[0]),
                                     "%s (%s) consumed by %r: %s\n%s" % (name, cls, consumers.get(name), why, text)))
                break
        rec.label("program_model")
        if any(len(v) >= 2 for v in consumers.values()):
            rec.nontrivial_case(["program", model])
            rec.label("program_shared_result")
        return fails
    finally:
        shutil.rmtree(tmp, ignore_errors=True)


PARTS = {"history": check_history, "program": check_program}


def run_shard(ctx, rec):
    from ..gen import models as M

    drive(ctx, rec, "history", history(), check_history, ctx.n(3200, 60000))
    drive(ctx, rec, "program", M.typed_models(max_nodes=10, clean=True), check_program, ctx.n(800, 20000))
