"""C04 -- fuzzy results always lie in [-1, +1]."""
from __future__ import annotations

import numpy
from hypothesis import strategies as st

from .. import arr as A
from .. import unit as U
from ..core import Failure, drive
from ..gen import arrays as G
from ..ref import commands as R

ID = "C04"
LEVEL = "exploration"
DESIGN_REF = "DESIGN.md section 3, C04"
TECHNIQUE = "Hypothesis generation of finite inputs and out-of-range parameters against the validity predicate -1 <= x <= 1 on every non-missing cell"
LEVEL_TEXT = (
    "All 14 fuzzy-producing commands are run on generated inputs (converters: any finite doubles up to 1e150 in "
    "magnitude and integers; operators: fuzzy-valued inputs, their declared precondition) with parameters deliberately "
    "outside the fuzzy range (thresholds anywhere and reversed, fuzzy/category/curve values up to 1e6, weights with "
    "zeros and negatives, every k), masked and unmasked, rank 1-3. Every non-missing result cell must satisfy "
    "-1 <= x <= 1 (NaN fails). Sampled, not exhaustive."
)
LEVEL_NOTE = "Inputs beyond 1e150 are out of scope (float64 intermediates overflow and the property gives no rule for NaN); documented MPilot errors count as a pass."
RULE = (
    "Hypothesis draws one of the 14 fuzzy producers, 1-5 inputs (rank 1-3, <= 30 cells, masks), wide finite doubles "
    "for converters and lattice fuzzy values for operators, and wild parameters. Oracle: validity predicate on every "
    "non-missing cell of a returned array; a documented MPilot error is a pass; any other exception is counted, not "
    "asserted here (C13 owns it). Non-trivial: the returned array has a valid cell exactly at -1 or +1 (the clamp or the "
    "XOr guard acted) and some parameter or input value lies outside [-1,1]; distinct = digest of the case."
)
ASSUMPTIONS = [
    "operator inputs are declared fuzzy by their producer but need not lie in [-1, 1] (a reader or plug-in may hand over anything finite); converter inputs are finite with |x| <= 1e150",
    "exceptions are not range violations (only returned values are judged here)",
]

CMDS = list(R.FUZZY)


def check_unit(case, rec):
    cmd = case["cmd"]
    arrays = [A.make_array(s, case["shape"]) for s in case["arrays"]]
    sig = "%s|%s" % (cmd, A.input_class(arrays))
    status, result = A.run_command(cmd, arrays, case["params"], aliases=case.get("aliases"))
    rec.label("cmd:" + cmd)
    if status == "err":
        rec.exclude("raised:" + A.exc_name(result).split("(")[0])
        return []
    if not isinstance(result, numpy.ndarray):
        return [Failure(sig + "|not_an_array", repr(type(result)))]
    m = numpy.ma.getmaskarray(result)
    valid = numpy.ma.getdata(result)[~m].astype(float)
    fails = []
    if valid.size:
        bad = ~((valid >= -1.0) & (valid <= 1.0))
        if bad.any():
            fails.append(Failure(sig + "|range", "valid cell value %r outside [-1, 1]" % valid[bad][0].item()))
        outside_inputs = any(abs(x) > 1 for s in case["arrays"] for x in s["data"] if x == x)
        outside_params = any(
            abs(v) > 1 for val in case["params"].values() for v in (val if isinstance(val, list) else [val])
            if isinstance(v, (int, float)) and not isinstance(v, bool))
        if ((valid == 1.0) | (valid == -1.0)).any() and (outside_inputs or outside_params):
            rec.nontrivial_case(case)
            rec.label("clamped:" + cmd, sample=case if len(case["arrays"][0]["data"]) <= 4 else None)
    return fails


@st.composite
def wild_case(draw):
    cmd = draw(st.sampled_from(CMDS))
    return draw(G.unit_case([cmd], max_rank=3, max_cells=30, wild=True, wide=cmd not in R.FUZZY_INPUT, fuzzy_wild=True,
                            dtypes=("float64", "int64", "float64", "float32", "int32")))


def check_model(model, rec):
    """Every fuzzy result of a generated model, inspected after the *whole* program has run (other commands have
    consumed it by then), lies in [-1, +1]."""
    import os
    import shutil
    import tempfile

    from mpilot.program import Program

    from ..gen import models as M

    tmp = tempfile.mkdtemp(prefix="vcheck-c04-")
    try:
        M.write_table(model, os.path.join(tmp, "input.csv"))
        text = M.source(model)
        try:
            prog = Program.from_source(text, working_dir=tmp)
            prog.run()
        except Exception as exc:
            rec.exclude("model_does_not_run:%s" % type(exc).__name__)
            return []
        rec.label("model")
        fails = []
        for node in model["nodes"]:
            if node["cmd"] not in R.FUZZY:
                continue
            res = prog.commands[node["name"]].result
            if not isinstance(res, numpy.ndarray):
                continue
            m = numpy.ma.getmaskarray(res)
            valid = numpy.ma.getdata(res)[~m].astype(float)
            if valid.size and not ((valid >= -1.0) & (valid <= 1.0)).all():
                consumers = [n["cmd"] for n in model["nodes"] if node["name"] in n.get("inputs", [])]
                fails.append(Failure("%s|model|range_after_run" % node["cmd"], "%s holds %r after the program ran (consumed by %r)\n%s" % (
                    node["name"], valid[~((valid >= -1.0) & (valid <= 1.0))][0].item(), consumers, text)))
                break
            if any(node["name"] in n.get("inputs", []) for n in model["nodes"]):
                rec.nontrivial_case(["model", model])
        if not fails:
            fails = netcdf_variant(model, text, tmp, rec)
        return fails
    finally:
        shutil.rmtree(tmp, ignore_errors=True)


def netcdf_variant(model, text, tmp, rec):
    """The same model over a NetCDF file, all its fuzzy results written out together at the end: once everything has run --
    the writer included -- every fuzzy result still lies in [-1, +1]."""
    import os

    from mpilot.program import EEMS_NETCDF_LIBRARIES, Program

    from . import c18

    rows = model["rows"]
    variables = []
    for name in sorted(model["cols"]):
        spec = model["cols"][name]
        data = [spec["missing"] if spec["mask"] is not None and spec["mask"][r] else spec["data"][r] for r in range(rows)]
        variables.append({"name": name, "dtype": "i8" if spec["dtype"] == "int64" else "f8", "data": data, "mask": None, "fill": None})
    c18.make_template(os.path.join(tmp, "input.nc"), [{"name": "x", "size": rows, "values": list(range(rows))}], variables)
    fuzzy = [n["name"] for n in model["nodes"] if n["cmd"] in R.FUZZY]
    if not fuzzy:
        return []
    nc = text.replace('"input.csv"', '"input.nc"').replace("MissingVal =", "MissingValue =")
    nc += '\nWOut = EEMSWrite(OutFileName = "out.nc", OutFieldNames = [%s], DimensionFileName = "input.nc", DimensionFieldName = "%s")\n' % (
        ", ".join(fuzzy), sorted(model["cols"])[0])
    try:
        prog = Program.from_source(nc, libraries=EEMS_NETCDF_LIBRARIES, working_dir=tmp)
        prog.run()
    except Exception as exc:
        rec.exclude("netcdf_variant_does_not_run:%s" % type(exc).__name__)
        return []
    rec.label("model_over_netcdf_with_writer")
    for name in fuzzy:
        res = prog.commands[name].result
        if isinstance(res, numpy.ndarray):
            valid = numpy.ma.getdata(res)[~numpy.ma.getmaskarray(res)].astype(float)
            if valid.size and not ((valid >= -1.0) & (valid <= 1.0)).all():
                cmd = [n["cmd"] for n in model["nodes"] if n["name"] == name][0]
                return [Failure("%s|model|range_after_write" % cmd, "%s holds %r after the program (with its NetCDF writer) ran\n%s" % (
                    name, valid[~((valid >= -1.0) & (valid <= 1.0))][0].item(), nc))]
    return []


PARTS = {"unit": check_unit, "model": check_model}


def run_shard(ctx, rec):
    from ..gen import models as M

    drive(ctx, rec, "unit", wild_case(), check_unit, ctx.n(8000, 300000))
    drive(ctx, rec, "model", M.typed_models(max_nodes=10, clean=True, cmds=list(R.FUZZY) + ["CvtFromFuzzy", "Copy", "Sum"]),
          check_model, ctx.n(800, 20000))
