"""C13 -- only declared error types escape, and the CLI reports them."""
from __future__ import annotations

import os
import shutil
import tempfile

from hypothesis import strategies as st

from .. import spec as SP
from ..core import sstr, Failure, drive, drive_enum
from ..gen import models as M
from ..gen import render as RD
from . import c10, c12

ID = "C13"
LEVEL = "fault_enumeration"
DESIGN_REF = "DESIGN.md section 3, C13"
TECHNIQUE = "exhaustive command x parameter x raw-kind confusion matrices (MPilot and EEMS 2.0 syntax), Hypothesis-generated token/character corruptions and hostile CSV contents, and coverage-guided fuzzing of command-file text with atheris/libFuzzer; allowed-exception oracle at the from_source()/run() boundary and CLI exit-status/stderr oracle through click's CliRunner"
LEVEL_TEXT = (
    "(a) For every built-in command (both I/O libraries) and every parameter, the argument is replaced by each of 16 raw "
    "kinds (integer, decimal, word, quoted text, boolean word, empty list, number list, word list, nested list, tuple, "
    "existing result name, missing name, path-like text) in an otherwise valid model. (b) Valid models and arbitrary "
    "renderings are corrupted by token deletions/duplications, bracket and quote damage and single-character "
    "substitutions. (c) CSV inputs are replaced by hostile contents (empty, header only, ragged rows, non-numeric cells, "
    "missing column, blank lines, BOM, quotes, long rows, NUL bytes). In every case loading and running must either "
    "succeed or raise SyntaxError or an MPilotError, and str() of the error must render. Every MPilotError outcome of "
    "(a)/(c) and a third of (b) is repeated through the command-line tool, which must exit non-zero with the message on "
    "standard error. The matrix is complete; corruptions and CSV contents are sampled."
    " A plug-in command raising 30 different exception classes at three positions of a model, a CSV field beyond the csv module's limit, and non-finite number texts are part of the matrix."
)
LEVEL_TEXT += ' Added later: digit-like characters that int() rejects among the raw kinds of the matrix.'
LEVEL_NOTE = "UnexpectedError is an MPilotError and therefore an allowed outcome; what a SyntaxError looks like through the CLI is not part of the statement."
RULE = (
    "Cases: (matrix) library, command, parameter, raw kind; (corrupt) model or rendering + corruption; (csv) model + "
    "hostile file content. Oracle: outcome in {success, SyntaxError, MPilotError}; sstr(exc) renders; CLI exit code != 0 "
    "and stderr contains the message. Non-trivial: an error raised outside execute() (lexing, grammar actions, EEMS-2 "
    "conversion, add_command, validation pass) or a CSV fault reaching EEMSRead.execute; distinct = digest of the case."
)
ASSUMPTIONS = ["command files are text (str); undecodable bytes in a command file are an I/O matter outside from_source()"]

from ..ref.commands import ALL as R_ALL

RAW_KINDS = {
    "int": "7", "decimal": "2.5", "word": "abc", "quoted": '"some text"', "boolean_word": "true", "empty_list": "[]",
    "number_list": "[1, 2.5]", "word_list": "[abc, def]", "nested_list": "[[1, 2], [3]]", "tuple": '[k: v, "k2": "v2"]',
    "existing_result": "Src", "missing_name": "Nowhere", "path_like": "C:\\data\\x.csv",
    "nul_text": '"in\x00put.csv"', "lone_surrogate": '"in\\ud800put.csv"', "control_text": '"a\x0cb\x85c\u2028d"',
    # texts that Python's float() accepts but that are not finite numbers
    "inf_word": "inf", "nan_word": "nan", "overflowing_exponent_word": "1e999", "quoted_neg_infinity": '"-Infinity"',
    "nonfinite_list": "[inf, -1e999, nan]",
    # characters that are "digits" to str.isdigit() / isnumeric() but that int() or float() may not take
    "superscript_digits": '"10\u00b2"', "circled_digit": '"\u2460"', "subscript_digit_list": '[1, "\u2082"]', "arabic_indic_digit": '"\u0663"',
    "fraction_char": '"\u00bd"', "fullwidth_digits": '"\uff11\uff12"',
}


def outcome(text, tmp, io):
    from mpilot.exceptions import MPilotError
    from mpilot.program import Program

    from ..history import maybe_earlier_v2_load

    maybe_earlier_v2_load(text)
    try:
        p = Program.from_source(text, libraries=c12.libraries(io), working_dir=tmp)
    except SyntaxError as exc:
        return "syntax_error", exc, "load"
    except MPilotError as exc:
        return "mpilot_error", exc, "load"
    except BaseException as exc:
        if isinstance(exc, (KeyboardInterrupt, SystemExit)):
            raise
        return "escaped", exc, "load"
    try:
        p.run()
    except MPilotError as exc:
        return "mpilot_error", exc, "run"
    except BaseException as exc:
        if isinstance(exc, (KeyboardInterrupt, SystemExit)):
            raise
        return "escaped", exc, "run"
    return "ok", None, None


def innermost_frame(exc):
    import traceback

    frames = traceback.extract_tb(exc.__traceback__)
    for fr in reversed(frames):
        if os.sep + "mpilot" + os.sep in fr.filename:
            return "%s:%s" % (os.path.basename(fr.filename), fr.name)
    return "?"


def cli_check(text, tmp, io, exc, sig):
    from click.testing import CliRunner
    from mpilot.cli.mpilot import main
    from mpilot.exceptions import UnexpectedError

    path = os.path.join(tmp, "model.mpt")
    with open(path, "w", newline="") as f:
        f.write(text)
    res = CliRunner().invoke(main, ["eems-csv" if io == SP.CSV else "eems-netcdf", path])
    try:
        stderr = res.stderr
    except Exception:
        stderr = res.output
    fails = []
    if res.exit_code == 0:
        fails.append(Failure("%s|cli_exit_zero" % sig, "exit 0 for %s\n%s" % (type(exc).__name__, text[:300])))
    if res.exception is not None and not isinstance(res.exception, SystemExit):
        fails.append(Failure("%s|cli_traceback:%s" % (sig, type(res.exception).__name__), "%r\n%s" % (res.exception, text[:300])))
        return fails
    import re

    want = "Problem: An unexpected error occurred" if isinstance(exc, UnexpectedError) else sstr(exc)
    # object reprs carry addresses that differ between the two runs, and characters the terminal encoding cannot
    # represent (lone surrogates, ...) are replaced on the way to stderr: compare the printable-ASCII skeleton
    norm = lambda s: re.sub(r"\\u[0-9a-fA-F]{4}|\\x[0-9a-fA-F]{2}|[^\x20-\x7e\n]|\?", "", re.sub(r"0x[0-9a-fA-F]+", "0x", s))
    if norm(want) not in norm(stderr):
        fails.append(Failure("%s|cli_message_missing" % sig, "stderr %r lacks %r" % (stderr[-300:], want[:200])))
    return fails


def judge(text, tmp, io, rec, sig, cli=True, located_outside_execute=None):
    from mpilot.exceptions import UnexpectedError

    kind, exc, phase = outcome(text, tmp, io)
    rec.label("outcome:" + kind + (":" + type(exc).__name__ if kind == "mpilot_error" else ""))
    fails = []
    if kind == "escaped":
        return [Failure("%s|escaped:%s@%s" % (sig, type(exc).__name__, innermost_frame(exc)), "%r\n%s" % (exc, text[:400]))], kind, exc
    if exc is not None:
        try:
            str(exc)
        except Exception as e2:
            fails.append(Failure("%s|str_raises:%s(%s)" % (sig, type(e2).__name__, type(exc).__name__), "%r\n%s" % (e2, text[:300])))
            return fails, kind, exc
    if kind == "mpilot_error" and cli:
        rec.label("cli_runs")
        fails.extend(cli_check(text, tmp, io, exc, sig))
    return fails, kind, exc


# ------------------------------------------------------------------------------------ (a) kind matrix

def matrix_cases():
    for io in (SP.CSV, SP.NETCDF):
        t = SP.table(io)
        for cmd in sorted(t):
            if io == SP.NETCDF and not cmd.startswith("EEMS"):
                continue
            for p in sorted(t[cmd][3]) + ["Metadata"]:
                for rk in RAW_KINDS:
                    yield {"io": io, "cmd": cmd, "param": p, "raw": rk}
                    if cmd in R_ALL and rk in ("missing_name", "int", "number_list", "quoted", "tuple", "existing_result"):
                        # the same, with consumers of the command's result written *before* it (forward references)
                        yield {"io": io, "cmd": cmd, "param": p, "raw": rk, "consumers_before": True}


def check_matrix(case, rec):
    io, cmd, p, rk = case["io"], case["cmd"], case["param"], case["raw"]
    t = SP.table(io)
    cmds = c12.base_commands(io)
    c = c12.canonical(cmd, "C", t[cmd], {"nf": "Src", "fz": "Fz"}, io)
    c["args"] = [a for a in c["args"] if a[0] != p] + [[p, {"r": RAW_KINDS[rk]}]]
    if case.get("consumers_before"):
        cmds.insert(0, {"name": "EarlyPlain", "cmd": "Sum", "args": [["InFieldNames", [{"r": "C"}, {"r": "C"}]]]})
        cmds.insert(0, {"name": "EarlyFuzzy", "cmd": "FuzzyNot", "args": [["InFieldName", {"r": "C"}]]})
    cmds.append(c)
    text = c12.text_of(cmds)
    tmp = tempfile.mkdtemp(prefix="vcheck-c13-")
    try:
        c12.prepare_dir(tmp, io)
        pk = "tuple" if p == "Metadata" else SP.base(t[cmd][3][p]).split(":")[0]
        fails, kind, exc = judge(text, tmp, io, rec, "matrix|%s|%s<-%s" % (io.split(".")[-1], pk, rk))
    finally:
        shutil.rmtree(tmp, ignore_errors=True)
    from mpilot.exceptions import UnexpectedError

    if exc is not None and not isinstance(exc, UnexpectedError):
        rec.nontrivial_case(case)
        rec.label("error_outside_execute", sample={"text": text.splitlines()[-1], "error": type(exc).__name__})
    return fails


# ------------------------------------------------------------------------------------ (a1) failing plugin commands

PLUGIN_ERRORS = ["ZeroDivisionError", "RuntimeError", "NotImplementedError", "AssertionError", "StopIteration", "csv.Error", "OddError",
                 "KeyError", "IndexError", "RecursionError", "UnicodeDecodeError", "SystemError", "BufferError", "EOFError", "ImportError",
                 "NameError", "MemoryError", "MaskError", "UserWarning", "OSError", "TypeError", "ValueError", "AttributeError", "OverflowError",
                 "FloatingPointError", "LookupError", "ReferenceError", "StopAsyncIteration", "TimeoutError", "PermissionError"]
PLUGIN_SHAPES = {
    "leaf": "X = Raiser(Kind = \"%s\")\n",
    "behind_consumer": "S = Src(V = 1)\nX = Raiser(Kind = \"%s\", After = S)\nY = Node(A = X)\n",
    "in_list_forward": "Y = Node(L = [S, X])\nZ = Node(A = Y, B = S)\nS = Src(V = 2)\nX = Raiser(Kind = \"%s\")\n",
}


def plugin_cases():
    for kind in PLUGIN_ERRORS:
        for shape in sorted(PLUGIN_SHAPES):
            yield {"kind": kind, "shape": shape}


def check_plugin(case, rec):
    """Whatever exception class a plugin command's execute() raises, run() reports an MPilot error and the command-line
    tool prints the problem/solution message and exits non-zero (only interpreter-exit signals pass through)."""
    from click.testing import CliRunner
    from mpilot.cli.mpilot import main
    from mpilot.exceptions import MPilotError
    from mpilot.program import Program

    text = PLUGIN_SHAPES[case["shape"]] % case["kind"]
    sig = "plugin|%s" % case["shape"]  # one root cause (the wrapping in Command.run) whatever the class: it goes into the detail
    rec.label("plugin:" + case["shape"])
    rec.nontrivial_case(case)
    try:
        prog = Program.from_source(text, libraries=("vlib_verif",))
    except Exception as exc:
        return [Failure("plugin|load_raises:%s" % type(exc).__name__, "%r\n%s" % (exc, text))]
    try:
        prog.run()
        return [Failure(sig + "|run_succeeds", text)]
    except MPilotError as exc:
        try:
            str(exc)
        except Exception as e2:
            return [Failure(sig + "|str_raises:%s" % type(e2).__name__, repr(e2))]
    except BaseException as exc:
        if isinstance(exc, (KeyboardInterrupt, SystemExit)):
            raise
        return [Failure(sig + "|escaped@%s" % innermost_frame(exc), "%s escapes: %r\n%s" % (type(exc).__name__, exc, text))]
    tmp = tempfile.mkdtemp(prefix="vcheck-c13-")
    try:
        path = os.path.join(tmp, "model.mpt")
        with open(path, "w") as f:
            f.write(text)
        res = CliRunner().invoke(main, ["eems-csv", path, "-l", "vlib_verif"])
        try:
            stderr = res.stderr
        except Exception:
            stderr = res.output
        if res.exception is not None and not isinstance(res.exception, SystemExit):
            return [Failure(sig + "|cli_traceback:%s" % type(res.exception).__name__, "%r\n%s" % (res.exception, text))]
        if res.exit_code == 0:
            return [Failure(sig + "|cli_exit_zero", text)]
        if "Problem:" not in stderr or "Solution:" not in stderr:
            return [Failure(sig + "|cli_message_missing", "stderr %r" % stderr[-300:])]
    finally:
        shutil.rmtree(tmp, ignore_errors=True)
    return []


# ------------------------------------------------------------------------------------ (a2) EEMS 2.0 syntax

def v2_cases():
    from . import c16

    for v2, target in sorted(c16.EEMS2.items()):
        if target is None:
            continue
        for p in ("InFieldName", "NewFieldName", "OutFileName", "InFieldNames"):
            for rk in RAW_KINDS:
                yield {"v2": v2, "param": p, "raw": rk}


def check_v2(case, rec):
    from . import c16

    io = SP.CSV
    t = SP.table(io)
    target = c16.EEMS2[case["v2"]]
    c = c12.canonical(target, "X", t[target], {"nf": "Src", "fz": "Fz"}, io)
    args = [a for a in c["args"] if a[0] != case["param"]]
    parts = ["%s = %s" % (k, c12.fmt(v)) for k, v in args]
    if case["param"] != "NewFieldName":
        parts.append("NewFieldName = X")
    parts.insert(len(parts) // 2, "%s = %s" % (case["param"], RAW_KINDS[case["raw"]]))
    text = c12.text_of(c12.base_commands(io)) + "%s(%s)\n" % (case["v2"], ", ".join(parts))
    tmp = tempfile.mkdtemp(prefix="vcheck-c13-")
    try:
        c12.prepare_dir(tmp, io)
        fails, kind, exc = judge(text, tmp, io, rec, "v2|%s<-%s" % (case["param"], case["raw"]), cli=False)
    finally:
        shutil.rmtree(tmp, ignore_errors=True)
    rec.label("v2_syntax")
    if exc is not None:
        rec.nontrivial_case(case)
        rec.label("v2_error_outside_execute", sample={"text": text.splitlines()[-1], "error": type(exc).__name__})
    return fails


# ------------------------------------------------------------------------------------ (b) corruptions

CHARS = list("()[]=,:#\"'\\ \n\t") + ['"\\n\\n\\n\\n\\n\\n\\n\\n\\n\\n"', 'X = "\\n\\n\\n\\n\\n\\n", ', "9" * 4301, "1." + "0" * 5000, "-" + "7" * 5000 + " ", "a", "1", ".", "-", "+", "é", "\r\n", "True", "[a, b:c]", "[x:y, z]", "=[", "](", '"\\"', "'\\x'"]


@st.composite
def corrupt_cases(draw):
    source = draw(st.sampled_from(["model", "model", "rendering"]))
    if source == "model":
        model = draw(M.typed_models(max_nodes=4, clean=True))
        base = {"model": model}
    else:
        base = {"prog": draw(RD.programs(RD.any_value(("id", "plain1", "id_plain")), max_commands=3))}
    how = draw(st.sampled_from(["token", "chars", "chars", "chars"]))
    if how == "token":
        base.update(kind=draw(st.sampled_from(c10.CORRUPTIONS)), pick=draw(st.integers(0, 60)))
    else:
        edits = draw(st.lists(st.tuples(st.integers(0, 10 ** 6), st.sampled_from(["insert", "replace", "delete"]),
                                        st.sampled_from(CHARS)), min_size=1, max_size=3))
        base.update(edits=[list(e) for e in edits])
    base["cli"] = draw(st.integers(0, 2)) == 0
    return base


def corrupted_text(case):
    if "model" in case:
        from . import c11

        prog = c11.model_to_abstract(case["model"])
    else:
        prog = case["prog"]
    if "kind" in case:
        return c10.corrupt(prog, case["kind"], case["pick"])
    text = RD.render(prog)[0]
    for pos, op, ch in case["edits"]:
        pos = pos % (len(text) + 1)
        if op == "insert":
            text = text[:pos] + ch + text[pos:]
        elif op == "replace":
            text = text[:pos] + ch + text[pos + 1:]
        else:
            text = text[:pos] + text[pos + 1:]
    return text


def check_corrupt(case, rec):
    text = corrupted_text(case)
    if text is None:
        rec.exclude("corruption_not_applicable")
        return []
    tmp = tempfile.mkdtemp(prefix="vcheck-c13-")
    try:
        if "model" in case:
            M.write_table(case["model"], os.path.join(tmp, "input.csv"))
        # the CLI reads the file with universal newlines: only texts without \r are the same input for both paths
        fails, kind, exc = judge(text, tmp, SP.CSV, rec, "corrupt", cli=case.get("cli", False) and "\r" not in text)
    finally:
        shutil.rmtree(tmp, ignore_errors=True)
    if kind in ("syntax_error", "mpilot_error"):
        from mpilot.exceptions import UnexpectedError

        if not isinstance(exc, UnexpectedError):
            rec.nontrivial_case(["corrupt", text])
            rec.label("corrupt_rejected_outside_execute", sample={"text": text, "error": type(exc).__name__} if len(text) < 200 else None)
    return fails


# ------------------------------------------------------------------------------------ (c) hostile CSV contents

@st.composite
def csv_cases(draw):
    model = draw(M.typed_models(max_nodes=3, clean=True))
    cols = sorted(model["cols"])
    kind = draw(st.sampled_from(["empty", "header_only", "ragged", "non_numeric", "missing_column", "blank_lines", "bom", "quotes",
                                 "long_row", "nul", "only_newlines", "short_rows", "inf_nan", "unicode_digits", "crlf", "semicolons", "huge_field"]))
    header = ",".join(cols)
    rows = [",".join("1.5" for _ in cols) for _ in range(model["rows"])]
    if kind == "empty":
        content = ""
    elif kind == "only_newlines":
        content = "\n\n\n"
    elif kind == "header_only":
        content = header + "\n"
    elif kind == "ragged":
        content = header + "\n" + "\n".join(r + draw(st.sampled_from(["", ",9", ",,,"])) for r in rows) + "\n1\n"
    elif kind == "short_rows":
        content = header + ",zz\n" + "\n".join("1" for _ in rows) + "\n" if len(cols) > 1 else header + "\n\n,\n"
    elif kind == "non_numeric":
        bad = draw(st.sampled_from(["abc", "", "1,5", "NULL", "1.2.3", "--1", " ", "0x10", "1e", "٣"]))
        k = draw(st.integers(0, len(rows) - 1))
        rows[k] = ",".join(bad for _ in cols)
        content = header + "\n" + "\n".join(rows) + "\n"
    elif kind == "missing_column":
        content = ",".join("zz%d" % i for i in range(len(cols))) + "\n" + "\n".join(rows) + "\n"
    elif kind == "blank_lines":
        content = header + "\n\n" + "\n\n".join(rows) + "\n\n\n"
    elif kind == "bom":
        content = "\ufeff" + header + "\n" + "\n".join(rows) + "\n"
    elif kind == "quotes":
        content = ",".join('"%s"' % c for c in cols) + "\n" + "\n".join(",".join('"1.5"' for _ in cols) for _ in rows) + '\n"unterminated\n'
    elif kind == "long_row":
        content = header + "\n" + ",".join(["1"] * 5000) + "\n"
    elif kind == "huge_field":
        # longer than the csv module's field size limit (131072 characters): csv.Error, which derives directly from Exception
        content = header + "\n" + ",".join(["1" * 140000] * len(cols)) + "\n"
    elif kind == "nul":
        content = header + "\n" + "1\x00,2\n"
    elif kind == "inf_nan":
        content = header + "\n" + "\n".join(",".join(draw(st.sampled_from(["inf", "nan", "-inf", "1e999", "1e-999"])) for _ in cols) for _ in rows) + "\n"
    elif kind == "unicode_digits":
        content = header + "\n" + "\n".join(",".join("١٢" for _ in cols) for _ in rows) + "\n"
    elif kind == "crlf":
        content = header + "\r\n" + "\r\n".join(rows) + "\r\n"
    else:
        content = header.replace(",", ";") + "\n" + "\n".join(r.replace(",", ";") for r in rows) + "\n"
    return {"model": model, "kind": kind, "content": content}


def check_csv(case, rec):
    tmp = tempfile.mkdtemp(prefix="vcheck-c13-")
    try:
        with open(os.path.join(tmp, "input.csv"), "w", newline="") as f:
            f.write(case["content"])
        text = M.source(case["model"])
        fails, kind, exc = judge(text, tmp, SP.CSV, rec, "csv:" + case["kind"])
    finally:
        shutil.rmtree(tmp, ignore_errors=True)
    rec.label("csv:" + case["kind"])
    if exc is not None:
        rec.nontrivial_case(["csv", case["kind"], case["content"][:200], text])
        rec.label("csv_fault_reaches_read", sample={"kind": case["kind"], "content": case["content"][:120], "error": type(exc).__name__})
    return fails


# ------------------------------------------------------------------------------------ (d) coverage-guided fuzzing

def check_text(case, rec):
    """Plain replay of a saved fuzzer input (or any text) through the same oracle."""
    tmp = tempfile.mkdtemp(prefix="vcheck-c13-")
    try:
        c12.prepare_dir(tmp, SP.CSV)
        fails, kind, exc = judge(case["text"], tmp, SP.CSV, rec, "text", cli=False)
    finally:
        shutil.rmtree(tmp, ignore_errors=True)
    rec.label("text_replayed")
    return fails


FUZZ_DICT = ["EEMSRead", "CvtToFuzzy", "FuzzyOr", "Sum", "WeightedSum", "NormalizeCurve", "READ", "SUM", "NewFieldName", "InFieldName",
             "InFieldNames", "InFileName", "Weights", "RawValues", "Metadata", "TrueThreshold", "DataType", "= ", "(", ")", "[", "]", ",",
             ":", "#", "\"", "'", "\\", "\n", "\r\n", "1.5", "-2", "1e5", "true", "input.csv", "a", "Float", "[a, b:c]", "9" * 50]


def run_atheris(ctx, rec, runs):
    """A libFuzzer campaign through atheris in a subprocess; crashes become ordinary `text` cases."""
    import glob
    import subprocess
    import sys

    from ..core import VERIF_DIR

    deps = os.path.join(VERIF_DIR, ".deps")
    if not os.path.isdir(os.path.join(deps, "atheris")):
        rec.notes.append("atheris not installed in .deps: coverage-guided part skipped")
        return
    tmp = tempfile.mkdtemp(prefix="vcheck-c13-fuzz-")
    try:
        work = os.path.join(tmp, "work")
        corpus = os.path.join(tmp, "corpus")
        crashes = os.path.join(tmp, "crashes")
        for d in (work, corpus, crashes):
            os.makedirs(d)
        c12.prepare_dir(work, SP.CSV)
        # seeds: a few valid models, and the empty corpus behaviour through an empty file
        t = SP.table(SP.CSV)
        seeds = [c12.text_of(c12.base_commands(SP.CSV)), ""]
        for cmd in ("Sum", "FuzzyOr", "NormalizeCurve", "CvtToFuzzyCat", "WeightedMean"):
            seeds.append(c12.text_of(c12.base_commands(SP.CSV) + [c12.canonical(cmd, "X", t[cmd], {"nf": "Src", "fz": "Fz"}, SP.CSV)]))
        seeds.append('READ(InFileName = "input.csv", InFieldName = a)\nSUM(InFieldNames = [a, a], NewFieldName = S)\n')
        for k, text in enumerate(seeds):
            with open(os.path.join(corpus, "seed%d" % k), "w") as f:
                f.write(text)
        with open(os.path.join(tmp, "dict"), "w") as f:
            for k, tok in enumerate(FUZZ_DICT):
                enc = "".join(
                    "\\" + chr(b) if chr(b) in '\\"' else (chr(b) if 32 <= b < 127 else "\\x%02x" % b) for b in tok.encode("utf-8"))
                f.write('kw%d="%s"\n' % (k, enc))
        env = dict(os.environ, VCHECK_FUZZ_DIR=work, PYTHONPATH=os.environ.get("PYTHONPATH", "") + os.pathsep + deps)
        cmd = [sys.executable, "-W", "ignore", "-m", "vcheck.fuzz.text_target", corpus, "-runs=%d" % runs,
               "-seed=%d" % (ctx.hseed("atheris") % (2 ** 31 - 2) + 1), "-max_len=400", "-dict=" + os.path.join(tmp, "dict"),
               "-artifact_prefix=" + crashes + os.sep, "-print_final_stats=1", "-timeout=60", "-rss_limit_mb=4096"]
        out = subprocess.run(cmd, cwd=VERIF_DIR, env=env, capture_output=True, text=True, timeout=3600)
        execs = 0
        for line in out.stderr.splitlines():
            if line.startswith("stat::number_of_executed_units:"):
                execs = int(line.split(":")[-1])
        rec.evaluated(execs)
        rec.parts["text/atheris"] += execs
        rec.label("atheris_executions", n=execs)
        if execs == 0 and out.returncode != 0 and not glob.glob(os.path.join(crashes, "crash-*")):
            rec.notes.append("atheris campaign did not run: %s" % out.stderr[-300:].replace("\n", " | "))
        for path in sorted(glob.glob(os.path.join(crashes, "crash-*")))[:5]:
            with open(path, "rb") as f:
                data = f.read()
            try:
                text = data.decode("utf-8")
            except UnicodeDecodeError:
                continue
            case = {"text": text}
            for f_ in check_text(case, rec):
                if not rec.is_known(f_):
                    rec.add_failure(f_, case, "text")
    finally:
        shutil.rmtree(tmp, ignore_errors=True)


PARTS = {"matrix": check_matrix, "plugin": check_plugin, "v2": check_v2, "corrupt": check_corrupt, "csv": check_csv, "text": check_text}


def run_shard(ctx, rec):
    drive_enum(ctx, rec, "matrix", matrix_cases(), check_matrix, exhaustive=True, max_novel=12)
    drive_enum(ctx, rec, "plugin", plugin_cases(), check_plugin, exhaustive=True, max_novel=12)
    drive_enum(ctx, rec, "v2", v2_cases(), check_v2, exhaustive=True, max_novel=12)
    drive(ctx, rec, "corrupt", corrupt_cases(), check_corrupt, ctx.n(2500, 60000), max_novel=6)
    drive(ctx, rec, "csv", csv_cases(), check_csv, ctx.n(800, 20000))
    if ctx.shard < (2 if ctx.quick else 8):
        run_atheris(ctx, rec, 3000 if ctx.quick else 150000)
