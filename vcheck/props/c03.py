"""C03 -- missing data stays missing and never leaks into valid results."""
from __future__ import annotations

import math
import os

import numpy
from hypothesis import strategies as st

from .. import arr as A
from .. import unit as U
from .. import modelslice as MS
from ..core import sstr, Failure, drive, drive_enum
from ..gen import arrays as G
from ..ref import commands as R

ID = "C03"
LEVEL = "exploration"
DESIGN_REF = "DESIGN.md section 3, C03"
TECHNIQUE = "Hypothesis generation of masked inputs with two independent hidden payloads: mask rule from an exact reference + payload-differential (bit equality); CSV MissingVal program-level slice"
LEVEL_TEXT = (
    "Every one of the 30 data commands is run on generated inputs (1-5 inputs, rank 1-3, int64/float64, every mask "
    "placement class) twice, with two different payloads hidden beneath the missing cells (0, +-1e300, NaN, +-inf, "
    "values equal to thresholds/categories). The result mask must contain the union of the input masks, contain "
    "nothing else except where the reference says the operation is undefined, and the two runs must agree bit for bit "
    "at every valid cell and in outcome. A program-level slice reads CSV columns with a MissingVal marker and feeds "
    "them to each command through Program.from_source, with two different marker values. Sampled, not exhaustive."
    " Whole generated models (every result's missing cells against the reference after Program.run) and the marker cases through the NetCDF reader (fill-value masks, with and without a MissingValue of the reader's own) are further parts."
)
LEVEL_TEXT += ' Added later: an enumerated part reading NetCDF variables of every stored type under every DataType with markers that alias a cell in another number representation; leading inputs that are complete layers of one extreme value.'
LEVEL_NOTE = "Trusts numpy.ma and the reference mask rule in vcheck/ref; NetCDF fill-value reading is covered under C18."
RULE = (
    "Hypothesis draws (command, parameters, input arrays with masks none/some/single/all/all-false, payload A under the "
    "mask) plus an independent payload B for the same masked cells. Oracles: (1) every cell missing in any input is "
    "missing in the result; (2) any other missing result cell must be one the reference marks undefined (zero divisor, "
    "zero weight sum, zero range/std); (3) run(A) and run(B) have the same outcome kind, identical masks and "
    "bit-identical values at non-missing cells. Program slice: CSV column + MissingVal "
    "marker m1 vs the same table written with marker m2. Non-trivial: at least one input cell is missing, at least one "
    "result cell is valid and payloads A and B differ at some missing cell; distinct = digest of the case."
)
ASSUMPTIONS = [
    "all data commands are cell-wise except for whole-array statistics over the valid cells",
    "cells the reference cannot predict stably (decision within rounding of a statistic) are only checked by the "
    "payload differential, not by the mask-subset rule",
]

CMDS = list(R.ALL)


def with_payload(case, payloads):
    c = dict(case)
    arrays = []
    for spec, pl in zip(case["arrays"], payloads):
        s = dict(spec)
        if spec["mask"] is not None:
            data = list(spec["data"])
            it = iter(pl)
            for i, m in enumerate(spec["mask"]):
                if m:
                    data[i] = next(it)
            s["data"] = data
        arrays.append(s)
    c["arrays"] = arrays
    return c


def outcome_kind(o):
    return "ok" if o.status == "ok" else "err:" + A.exc_name(o.result)


def bits_equal(a, b):
    ma, mb = numpy.ma.getmaskarray(a), numpy.ma.getmaskarray(b)
    if a.shape != b.shape or not (ma == mb).all():
        return False
    da = numpy.ma.getdata(a)[~ma]
    db = numpy.ma.getdata(b)[~mb]
    if da.dtype != db.dtype:
        return False
    return da.tobytes() == db.tobytes()


def check_unit(case, rec):
    cmd = case["cmd"]
    oa = U.evaluate(case)
    fails = []
    arrays = oa.arrays
    union = None
    for a in arrays:
        m = numpy.ma.getmaskarray(a)
        union = m if union is None else (union | m)
    any_missing = bool(union is not None and union.any())
    rec.label("cmd:" + cmd)

    # (1) + (2): mask rule
    if oa.status == "ok" and isinstance(oa.result, numpy.ndarray) and union is not None:
        if tuple(oa.result.shape) == tuple(arrays[0].shape):
            rm = numpy.ma.getmaskarray(oa.result)
            lost = union & ~rm
            if lost.any():
                i = int(numpy.flatnonzero(lost.ravel())[0])
                fails.append(Failure("%s|mask_lost" % oa.sig, "cell %d missing in an input but valid (%r) in the result"
                                     % (i, numpy.ma.getdata(oa.result).ravel()[i].item())))
            if oa.ref_kind == "cells" and not lost.any():
                fails.extend(f for f in A.compare(oa.result, oa.ref, arrays[0].shape, oa.sig, check_values=False)
                             if f.signature.endswith("mask_extra"))
    elif oa.status == "err" and oa.ref_kind == "cells":
        fails.append(Failure("%s|raises:%s" % (oa.sig, A.exc_name(oa.result)), str(oa.result)[:300]))

    # (3): payload differential
    differs = False
    if case.get("payloads2") and any_missing:
        cb = with_payload(case, case["payloads2"])
        for sa, sb in zip(case["arrays"], cb["arrays"]):
            for x, y in zip(sa["data"], sb["data"]):
                if not (x == y or (isinstance(x, float) and isinstance(y, float) and math.isnan(x) and math.isnan(y))):
                    differs = True
        ob = U.evaluate(cb)
        rec.label("payload_pairs")
        if outcome_kind(oa) != outcome_kind(ob):
            fails.append(Failure("%s|payload_leak:outcome" % oa.sig, "payload A: %s, payload B: %s" % (outcome_kind(oa), outcome_kind(ob))))
        elif oa.status == "ok" and isinstance(oa.result, numpy.ndarray) and isinstance(ob.result, numpy.ndarray):
            if not bits_equal(oa.result, ob.result):
                fails.append(Failure("%s|payload_leak" % oa.sig, "results differ between two payloads hidden under the mask"))
    if oa.status == "ok" and isinstance(oa.result, numpy.ndarray):
        some_valid = bool((~numpy.ma.getmaskarray(oa.result)).any())
        if any_missing and some_valid and differs:
            rec.nontrivial_case(case)
            kinds = set()
            for s in case["arrays"]:
                if s["mask"] is None:
                    kinds.add("nomask")
                elif all(s["mask"]):
                    kinds.add("all")
                elif sum(s["mask"]) == 1:
                    kinds.add("single")
                elif any(s["mask"]):
                    kinds.add("some")
                else:
                    kinds.add("allfalse")
            for k in kinds:
                rec.label("mask:" + k, sample=case if len(case["arrays"][0]["data"]) <= 4 else None)
            rec.label("rank:%d" % len(case["shape"]))
    return fails


@st.composite
def payload_case(draw):
    case = draw(G.unit_case(CMDS, max_rank=3, max_cells=30, two_distinct=True, tiny=True, dtypes=("float64", "int64", "float64", "int64", "float32", "int32")))
    if case["cmd"] in R.NARY and len(case["arrays"]) >= 3 and draw(st.integers(0, 5)) == 0:
        # the leading inputs are complete layers of one extreme value each (fully true, fully false, all zero): whatever they
        # settle about the value, a cell missing in a later input is missing in the result
        v = draw(st.sampled_from([1, -1, 0]))
        for spec in case["arrays"][:draw(st.integers(2, len(case["arrays"]) - 1))]:
            spec["data"] = [type(spec["data"][0])(v)] * len(spec["data"])
            spec["mask"] = None
        last = case["arrays"][-1]
        if last["mask"] is None or not any(last["mask"]):
            hole = draw(st.integers(0, len(last["data"]) - 1))
            last["mask"] = [1 if i == hole else 0 for i in range(len(last["data"]))]
        case.pop("aliases", None)  # (every input is a result of its own here)
    p2 = []
    for spec in case["arrays"]:
        k = sum(spec["mask"]) if spec["mask"] is not None else 0
        pool = G.INT_PAYLOADS if spec["dtype"].startswith("int") else G.FLOAT_PAYLOADS
        if spec["dtype"] == "int32":
            pool = [x for x in pool if abs(x) < 2 ** 31]
        if spec["dtype"] == "float32":
            pool = [x for x in pool if not (abs(x) > 3e38 and abs(x) != float("inf"))]
        extra = [x for x, m in zip(spec["data"], spec["mask"] or []) if not m][:3]
        p2.append(draw(st.lists(st.sampled_from(pool + extra), min_size=k, max_size=k)))
    case["payloads2"] = p2
    return case


# ------------------------------------------------------------------ program-level slice (CSV MissingVal)

SINGLE = [c for c in R.UNARY]


@st.composite
def csv_case(draw):
    cmd = draw(st.sampled_from(CMDS))
    fuzzy = cmd in R.FUZZY_INPUT
    n = draw(G.arity(cmd))
    rows = draw(st.integers(2, 8))
    dtype = "float64" if fuzzy else draw(st.sampled_from(["float64", "int64"]))
    cols = []
    for _ in range(n):
        spec = draw(G.array_spec(rows, dtype, fuzzy=False, mask_kind=draw(st.sampled_from(["some", "single", "none"])), payload=False))
        cols.append(spec)
    params = draw(G.params_for(cmd, n, [x for x in cols[0]["data"]][:4]))
    markers = draw(st.lists(st.sampled_from([-9999, 99, -77, 12345, 1000]), min_size=2, max_size=2, unique=True))
    if dtype == "float64" and draw(st.integers(0, 3)) == 0:
        # a valid cell that is almost, but not, the missing-value marker of one of the two files (a relative 2e-6 away)
        k = draw(st.integers(0, n - 1))
        free = [r for r in range(rows) if not (cols[k]["mask"] or [0] * rows)[r]]
        if free:
            cols[k]["data"][draw(st.sampled_from(free))] = markers[draw(st.integers(0, 1))] * (1 + 2e-6)
    return {"cmd": cmd, "params": params, "cols": cols, "dtype": dtype, "markers": markers, "fuzzy": fuzzy}


def _fmt(v):
    if isinstance(v, bool):
        return "true" if v else "false"
    if isinstance(v, (list, tuple)):
        return "[" + ", ".join(_fmt(x) for x in v) + "]"
    if isinstance(v, str):
        return '"%s"' % v
    return repr(v)


def csv_program(case, marker, tmp, tag):
    n = len(case["cols"])
    names = ["V%d" % i for i in range(n)]
    path = os.path.join(tmp, "in_%s.csv" % tag)
    rows = len(case["cols"][0]["data"])
    with open(path, "w") as f:
        f.write(",".join(names) + "\n")
        for r in range(rows):
            cells = []
            for c in case["cols"]:
                if c["mask"] is not None and c["mask"][r]:
                    cells.append(repr(marker))
                else:
                    cells.append(repr(c["data"][r]))
            f.write(",".join(cells) + "\n")
    lines = []
    refs = []
    for i, nm in enumerate(names):
        lines.append('%s = EEMSRead(InFileName = "%s", InFieldName = "%s", MissingVal = %r, DataType = "%s")'
                     % (nm, path, nm, marker, "Integer" if case["dtype"] == "int64" else "Float"))
        if case["fuzzy"]:
            lines.append("F%d = CvtToFuzzy(InFieldName = %s, TrueThreshold = 1, FalseThreshold = -1)" % (i, nm))
            refs.append("F%d" % i)
        else:
            refs.append(nm)
    cmd = case["cmd"]
    args = []
    pn = A.INPUT_PARAM[cmd]
    if cmd in R.NARY:
        args.append("%s = [%s]" % (pn[0], ", ".join(refs)))
    else:
        for p, r in zip(pn, refs):
            args.append("%s = %s" % (p, r))
    for k, v in case["params"].items():
        args.append("%s = %s" % (k, _fmt(v)))
    lines.append("Out = %s(%s)" % (cmd, ", ".join(args)))
    return "\n".join(lines)


_TMP = {"dir": None}


def check_csv(case, rec):
    """The same table written with two different missing-value markers must give identical results, with the
    marked rows missing."""
    import tempfile
    import shutil
    from mpilot.program import Program

    tmp = tempfile.mkdtemp(prefix="vcheck-c03-")
    try:
        outs = []
        for tag, marker in zip("ab", case["markers"]):
            # the marker must not collide with real data of this case
            if any(marker == x for c in case["cols"] for x in c["data"]):
                rec.exclude("marker_collides_with_data")
                return []
            src = csv_program(case, marker, tmp, tag)
            try:
                prog = Program.from_source(src)
                prog.run()
                outs.append(("ok", prog.commands["Out"].result))
            except Exception as exc:
                outs.append(("err", exc))
    finally:
        shutil.rmtree(tmp, ignore_errors=True)
    sig = "%s|csv/%s/n%d" % (case["cmd"], case["dtype"], len(case["cols"]))
    fails = []
    (sa, ra), (sb, rb) = outs
    ka = "ok" if sa == "ok" else "err:" + A.exc_name(ra)
    kb = "ok" if sb == "ok" else "err:" + A.exc_name(rb)
    rec.label("csv_cmd:" + case["cmd"])
    if ka != kb:
        return [Failure(sig + "|payload_leak:outcome", "marker %r: %s; marker %r: %s" % (case["markers"][0], ka, case["markers"][1], kb))]
    if sa != "ok":
        if not A.is_mpilot_error(ra):
            arrays = [A.make_array(c) for c in case["cols"]]
            kind, _ = U.reference(case["cmd"], arrays, case["params"]) if not case["fuzzy"] else ("skip", None)
            if kind == "cells":
                fails.append(Failure(sig + "|raises:" + A.exc_name(ra), sstr(ra)[:300]))
        return fails
    union = None
    for c in case["cols"]:
        m = numpy.array(c["mask"] or [0] * len(c["data"]), dtype=bool)
        union = m if union is None else union | m
    if not isinstance(ra, numpy.ndarray) or ra.shape != union.shape:
        return [Failure(sig + "|shape", "result %r" % (getattr(ra, "shape", type(ra)),))]
    rm = numpy.ma.getmaskarray(ra)
    if (union & ~rm).any():
        i = int(numpy.flatnonzero(union & ~rm)[0])
        fails.append(Failure(sig + "|mask_lost", "row %d is the missing value in the file but valid (%r) in the result"
                             % (i, numpy.ma.getdata(ra)[i].item())))
    if not bits_equal(ra, rb):
        fails.append(Failure(sig + "|payload_leak", "results differ between missing-value markers %r" % (case["markers"],)))
    if union.any() and (~rm).any():
        rec.nontrivial_case(case)
        rec.label("csv_program", sample=case if len(case["cols"][0]["data"]) <= 3 else None)
    return fails


def check_model(model, rec):
    """Whole models: after Program.run every result is missing exactly where the reference says -- a command that
    damages the mask of an input it shares with other commands shows up here, not in the one-command parts."""
    return MS.model_failures(model, rec, lambda sig, cmd: sig.endswith("|mask_lost") or sig.endswith("|mask_extra"), "model")


def check_netcdf(case, rec):
    """The same through the NetCDF reader: cells the file itself marks missing (its fill value) stay missing in what is
    read -- also when the reader is given a MissingValue of its own -- and in the result of the command fed by it."""
    import tempfile
    import shutil
    from mpilot.program import EEMS_NETCDF_LIBRARIES, Program

    from . import c18

    if any(case["markers"][0] == x for c in case["cols"] for x in c["data"]):
        rec.exclude("marker_collides_with_data")
        return []
    rows = len(case["cols"][0]["data"])
    tmp = tempfile.mkdtemp(prefix="vcheck-c03-")
    try:
        variables = []
        for i, c in enumerate(case["cols"]):
            variables.append({"name": "V%d" % i, "dtype": "i8" if case["dtype"] == "int64" else "f8", "data": c["data"],
                              "mask": c["mask"] if c["mask"] is not None and any(c["mask"]) else None,
                              "fill": -7777 if c["mask"] is not None and any(c["mask"]) else None})
        path = os.path.join(tmp, "in.nc")
        c18.make_template(path, [{"name": "x", "size": rows, "values": list(range(rows))}], variables)
        lines, refs = [], []
        for i, c in enumerate(case["cols"]):
            own = ", MissingValue = %r" % case["markers"][0] if (i + case.get("own_missing", 0)) % 2 == 0 else ""
            lines.append('V%d = EEMSRead(InFileName = "%s", InFieldName = "V%d", DataType = "%s"%s)' % (
                i, path, i, "Integer" if case["dtype"] == "int64" else "Float", own))
            if case["fuzzy"]:
                lines.append("F%d = CvtToFuzzy(InFieldName = V%d, TrueThreshold = 1, FalseThreshold = -1)" % (i, i))
                refs.append("F%d" % i)
            else:
                refs.append("V%d" % i)
        # the first variable read a second time, now with one of its own valid values declared missing: the two reads
        # are independent of each other (missing there, an ordinary cell here), in whichever order they are written
        c0 = case["cols"][0]
        valid0 = [x for x, m in zip(c0["data"], c0["mask"] or [0] * rows) if not m]
        dup_line = None
        if valid0:
            dup_line = 'Dup = EEMSRead(InFileName = "%s", InFieldName = "V0", DataType = "%s", MissingValue = %r)' % (
                path, "Integer" if case["dtype"] == "int64" else "Float", valid0[0])
            lines.insert(0 if case.get("own_missing", 0) % 2 else len(lines), dup_line)
        cmd = case["cmd"]
        pn = A.INPUT_PARAM[cmd]
        args = ["%s = [%s]" % (pn[0], ", ".join(refs))] if cmd in R.NARY else ["%s = %s" % (p_, r) for p_, r in zip(pn, refs)]
        args += ["%s = %s" % (k, _fmt(v)) for k, v in case["params"].items()]
        lines.append("Out = %s(%s)" % (cmd, ", ".join(args)))
        sig = "%s|netcdf/%s/n%d" % (cmd, case["dtype"], len(case["cols"]))
        rec.label("netcdf_cmd:" + cmd)
        try:
            prog = Program.from_source("\n".join(lines), libraries=EEMS_NETCDF_LIBRARIES)
            prog.run()
        except Exception as exc:
            rec.exclude("netcdf_program_does_not_run:%s" % A.exc_name(exc))
            return []
        fails = []
        union = numpy.zeros(rows, dtype=bool)
        for i, c in enumerate(case["cols"]):
            m = numpy.array(c["mask"] or [0] * rows, dtype=bool)
            union |= m
            rm = numpy.ma.getmaskarray(prog.commands["V%d" % i].result)
            if (m & ~rm).any():
                fails.append(Failure(sig + "|read|mask_lost", "V%d: row %d is missing in the file but valid (%r) in what was read" % (
                    i, int(numpy.flatnonzero(m & ~rm)[0]), numpy.ma.getdata(prog.commands["V%d" % i].result)[int(numpy.flatnonzero(m & ~rm)[0])].item())))
                return fails
        if dup_line:
            v0, dup = prog.commands["V0"].result, prog.commands["Dup"].result
            m0 = numpy.array(c0["mask"] or [0] * rows, dtype=bool)
            hit = numpy.array([x == valid0[0] for x in c0["data"]]) & ~m0
            rec.label("netcdf_variable_read_twice")
            if not (numpy.ma.getmaskarray(dup)[hit]).all() or numpy.ma.getmaskarray(v0)[hit].any():
                return [Failure(sig + "|read_twice|mask", "cells equal to %r: missing in the read that declares it (%r), present in the other (%r)" % (
                    valid0[0], numpy.ma.getmaskarray(dup).astype(int).tolist(), numpy.ma.getmaskarray(v0).astype(int).tolist()))]
            if not (numpy.ma.getdata(v0)[hit] == valid0[0]).all():
                return [Failure(sig + "|read_twice|payload_leak", "the plain read holds %r where the file holds %r" % (
                    numpy.ma.getdata(v0)[hit].tolist(), valid0[0]))]
        out = prog.commands["Out"].result
        if isinstance(out, numpy.ndarray) and out.shape == union.shape:
            rm = numpy.ma.getmaskarray(out)
            if (union & ~rm).any():
                fails.append(Failure(sig + "|mask_lost", "row %d is missing in the file but valid in the result" % int(numpy.flatnonzero(union & ~rm)[0])))
        if union.any():
            rec.nontrivial_case(["netcdf", case])
        return fails
    finally:
        shutil.rmtree(tmp, ignore_errors=True)


def marker_cases():
    """A NetCDF variable of each stored type, read with a marker of its own: cells that are a different number from
    the marker -- however close to it in another number representation -- stay present."""
    for store, datatype in (("f8", "Float"), ("i8", "Integer"), ("u8", "Positive Integer"), ("u8", "Integer"), ("i8", "Float"), ("f8", "Positive Float")):
        for marker in (-9999, -1, 0, 7, 250000, -2 ** 31):
            cells = [5, 250000, 7, 0, 3]
            if store == "u8":
                cells += [2 ** 64 + marker if marker < 0 else 2 ** 64 - 1 - marker, 2 ** 63, 2 ** 64 - 1]
            elif store == "i8":
                cells += [-marker, 2 ** 62, -2 ** 63 + 1] + ([marker] if marker < 0 else [])
            else:
                cells += [float(marker) + 0.5, -float(marker), 1e300] + ([marker] if marker < 0 and not datatype.startswith("Positive") else [])
            if datatype == "Positive Float":
                cells = [abs(c) for c in cells]
            if datatype == "Integer" and store == "u8":
                cells = [c for c in cells if c < 2 ** 63]
            if datatype == "Float" and store == "i8":
                cells = [c for c in cells if abs(c) < 2 ** 53]
            for rev in (False, True):
                yield {"store": store, "datatype": datatype, "marker": marker, "cells": cells[::-1] if rev else cells}


def check_marker(case, rec):
    import tempfile
    import shutil
    from mpilot.program import EEMS_NETCDF_LIBRARIES, Program

    from . import c18

    tmp = tempfile.mkdtemp(prefix="vcheck-c03-")
    try:
        cells = case["cells"]
        path = os.path.join(tmp, "in.nc")
        c18.make_template(path, [{"name": "x", "size": len(cells), "values": list(range(len(cells)))}],
                          [{"name": "V", "dtype": case["store"], "data": cells, "mask": None, "fill": None}])
        text = 'V = EEMSRead(InFileName = "%s", InFieldName = "V", DataType = "%s", MissingValue = %d)\nOut = Copy(InFieldName = V)' % (
            path, case["datatype"], case["marker"])
        sig = "EEMSRead|netcdf_marker/%s/%s" % (case["store"], case["datatype"].replace(" ", ""))
        rec.label("netcdf_marker:%s/%s" % (case["store"], case["datatype"]))
        try:
            prog = Program.from_source(text, libraries=EEMS_NETCDF_LIBRARIES)
            prog.run()
        except Exception as exc:
            rec.exclude("netcdf_program_does_not_run:%s" % A.exc_name(exc))
            return []
        rec.nontrivial_case(["marker", case])
        want = [c == case["marker"] for c in cells]
        for name in ("V", "Out"):
            got = numpy.ma.getmaskarray(prog.commands[name].result).tolist()
            if got != want:
                i = [a != b for a, b in zip(got, want)].index(True)
                return [Failure(sig + ("|mask_lost" if want[i] else "|valid_cell_missing"),
                                "%s: cell %d holds %r, MissingValue is %r: missing=%r\n%s" % (name, i, cells[i], case["marker"], got[i], text))]
        return []
    finally:
        shutil.rmtree(tmp, ignore_errors=True)


PARTS = {"unit": check_unit, "csv": check_csv, "model": check_model, "netcdf": check_netcdf, "marker": check_marker}


def run_shard(ctx, rec):
    drive(ctx, rec, "model", MS.model_cases(), check_model, ctx.n(2000, 40000))
    drive(ctx, rec, "unit", payload_case(), check_unit, ctx.n(6000, 150000))
    drive(ctx, rec, "csv", csv_case(), check_csv, ctx.n(500, 6000))
    drive(ctx, rec, "netcdf", csv_case(), check_netcdf, ctx.n(400, 5000))
    drive_enum(ctx, rec, "marker", marker_cases(), check_marker, exhaustive=True)
