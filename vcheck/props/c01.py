"""C01 -- every command executes exactly once, fed by its finished dependencies."""
from __future__ import annotations

import itertools

from hypothesis import strategies as st

from .. import vlog
from ..core import peek, Failure, drive, drive_enum

ID = "C01"
LEVEL = "exploration"
DESIGN_REF = "DESIGN.md section 3, C01"
TECHNIQUE = "exhaustive small DAGs x reference kinds x textual orders + Hypothesis-generated DAGs with run()/result-access histories, against an execution-log model (count == 1, term equality)"
LEVEL_TEXT = (
    "Programs over a logging test library are built from every DAG on up to 3 commands (thorough: 4) with every edge "
    "realised as a direct, list or nested-list reference and every textual order, and from generated DAGs of up to 12 "
    "commands (diamonds, shared sub-results, list-only references), loaded from source or built through add_command (references by name or as Command objects). "
    "A generated history of run() and result accesses is replayed; after every step an execution log must show each "
    "command executed at most once, exactly the dependencies of an accessed result executed, everything executed after "
    "run(), nothing executed by later steps, and every result equal to the term computed from the abstract graph "
    "(so each consumer saw the finished result of the right command for every reference, in parameter order). "
    "Exhaustive for the small graphs, sampled beyond."
    ' Further parts: the program may grow between steps (add_command of commands referencing earlier ones, by name or as objects); references through result parameters with a declared type; models 40-3000 commands deep (chains, ladders, list and nested-list links, any file order, a result near the source read before run(), an extension between two runs).'
)
LEVEL_TEXT += ' Histories also hold: a consumer added and read before the command it refers to exists (refused), then completion; the argument of a command that has not run given a new value.'
LEVEL_NOTE = "Term equality is observed through a test library's execute(); execution counts are additionally observed on the built-in commands of generated EEMS models through execute() wrappers."
RULE = (
    "Cases: {nodes: [refs via A/B/C direct, L list, N nested list], order, build: source|api, steps: run | read i | "
    "read_twice i}. Enumerated: all DAGs n<=3 (thorough n<=4, kinds sampled) x orders x two step scripts; generated: "
    "n<=12, <=12 steps. Oracle: execution-log model + term equality. Non-trivial: some command referenced by >= 2 "
    "others, some command referenced only through lists, and at least one step after the first run(); distinct = "
    "digest of the case."
)
ASSUMPTIONS = ["commands are deterministic; the log is the harness's own (vcheck/vlog.py)"]

LIBS = ("vlib_verif",)


def node_refs(node):
    """Referenced node indices in parameter order."""
    out = []
    for k in ("A", "B", "C", "TS", "TN"):
        if node.get(k) is not None:
            out.append(node[k])
    out.extend(node.get("L") or [])
    for inner in node.get("N") or []:
        out.extend(inner)
    out.extend(node.get("TL") or [])
    return out


def name(i):
    return "X%d" % i


def expected_term(nodes, i, memo=None):
    memo = {} if memo is None else memo
    if i not in memo:
        n = nodes[i]
        if n.get("num"):
            memo[i] = n["V"]  # a number-typed leaf returns the number itself; every consumer is fed exactly that
        elif n.get("src"):
            memo[i] = [name(i), n["V"]]
        elif n.get("mute"):
            memo[i] = None
        else:
            memo[i] = [name(i), [expected_term(nodes, c, memo) for c in node_refs(n)]]
    return memo[i]


def deps(nodes, i, acc=None):
    acc = set() if acc is None else acc
    todo = [i]
    while todo:  # no recursion: models may be hundreds of commands deep
        j = todo.pop()
        if j in acc:
            continue
        acc.add(j)
        todo.extend(node_refs(nodes[j]))
    return acc


def expand_deep(spec):
    """A long model from a compact description: n commands, every one referencing its predecessor(s); all but the
    source return None (Mute), so that results stay flat however deep the model is."""
    n, style = spec["n"], spec["style"]
    nodes = [{"src": True, "V": 7}]
    for j in range(1, n):
        node = {"mute": True}
        if style == "chain":
            node["A"] = j - 1
        elif style == "list_chain":
            node["L"] = [j - 1]
        elif style == "nested_chain":
            node["N"] = [[j - 1]]
        else:  # ladder: every command is shared by its two successors
            node["A"] = j - 1
            node["L"] = [max(0, j - 2)]
        if spec.get("meta"):
            node["meta"] = spec["meta"]
        nodes.append(node)
    order = {"forward": list(range(n)), "reversed": list(range(n))[::-1],
             "interleaved": list(range(0, n, 2)) + list(range(1, n, 2))}[spec["order"]]
    return {"nodes": nodes, "order": order}


def source_text(nodes, order):
    lines = []
    for i in order:
        n = nodes[i]
        if n.get("num"):
            lines.append("%s = NumSrc(V = %r)" % (name(i), n["V"]))
            continue
        if n.get("src"):
            lines.append("%s = Src(V = %d)" % (name(i), n["V"]))
            continue
        args = []
        for k in ("A", "B", "C", "TS", "TN"):
            if n.get(k) is not None:
                args.append("%s = %s" % (k, name(n[k])))
        if n.get("TL") is not None:
            args.append("TL = [%s]" % ", ".join(name(c) for c in n["TL"]))
        if n.get("typed"):
            lines.append("%s = Typed(%s)" % (name(i), ", ".join(args)))
            continue
        if n.get("L") is not None:
            args.append("L = [%s]" % ", ".join(name(c) for c in n["L"]))
        if n.get("N") is not None:
            args.append("N = [%s]" % ", ".join("[%s]" % ", ".join(name(c) for c in inner) for inner in n["N"]))
        if n.get("meta") == "first":
            args.insert(0, "Metadata = [Note: described]")  # descriptive arguments may stand anywhere among the others
        elif n.get("meta") == "last":
            args.append("Metadata = [Note: described]")
        lines.append("%s = %s(%s)" % (name(i), "Mute" if n.get("mute") else "Node", ", ".join(args)))
    return "\n".join(lines)


def build(case):
    from mpilot.program import Program

    nodes, order = case["nodes"], case["order"]
    if case.get("build", "source") == "source":
        return Program.from_source(source_text(nodes, order), libraries=LIBS)
    if case.get("build") == "api_shared_lists":
        # a caller-owned template: the very same list objects are handed to two programs; the first one is run to
        # completion before the second (the one under test) is used
        shared = {}
        progs = []
        for offset in (1000, 0):
            prog = Program(libraries=LIBS)
            for i in order:
                n = nodes[i]
                if n.get("src"):
                    prog.add_command(prog.find_command_class("Src"), name(i), {"V": n["V"] + offset})
                    continue
                if i not in shared:
                    args = {}
                    for k in ("A", "B", "C"):
                        if n.get(k) is not None:
                            args[k] = name(n[k])
                    if n.get("L") is not None:
                        args["L"] = [name(c) for c in n["L"]]
                    if n.get("N") is not None:
                        args["N"] = [[name(c) for c in inner] for inner in n["N"]]
                    shared[i] = args
                prog.add_command(prog.find_command_class("Mute" if n.get("mute") else "Node"), name(i), dict(shared[i]))
            progs.append(prog)
        progs[0].run()
        vlog.reset(cap=vlog.LOG.cap)
        return progs[1]
    prog = Program(libraries=LIBS)
    by_object = case.get("build") == "api_objects"
    if by_object:
        order = list(range(len(nodes)))  # referenced commands must exist before they can be passed as objects

    def ref(c):
        return prog.commands[name(c)] if by_object else name(c)

    node_cls = prog.find_command_class("Node")
    mute_cls = prog.find_command_class("Mute")
    src_cls = prog.find_command_class("Src")
    for i in order:
        n = nodes[i]
        if n.get("num"):
            prog.add_command(prog.find_command_class("NumSrc"), name(i), {"V": n["V"]})
            continue
        if n.get("src"):
            prog.add_command(src_cls, name(i), {"V": n["V"]})
            continue
        args = {}
        for k in ("A", "B", "C", "TS", "TN"):
            if n.get(k) is not None:
                args[k] = ref(n[k])
        if n.get("TL") is not None:
            args["TL"] = [ref(c) for c in n["TL"]]
        if n.get("typed"):
            prog.add_command(prog.find_command_class("Typed"), name(i), args)
            continue
        if n.get("L") is not None:
            args["L"] = [ref(c) for c in n["L"]]
        if n.get("N") is not None:
            args["N"] = [[ref(c) for c in inner] for inner in n["N"]]
        if n.get("meta") == "first":
            args = dict([("Metadata", {"Note": "described"})] + list(args.items()))
        elif n.get("meta") == "last":
            args["Metadata"] = {"Note": "described"}
        prog.add_command(mute_cls if n.get("mute") else node_cls, name(i), args)
    return prog


def shape_class(case):
    nodes = case["nodes"]
    n = len(nodes)
    indeg = {}
    list_only = set(range(n))
    for nd in nodes:
        for k in ("A", "B", "C"):
            if nd.get(k) is not None:
                list_only.discard(nd[k])
        for c in node_refs(nd):
            indeg[c] = indeg.get(c, 0) + 1
    referenced = set(indeg)
    return {
        "shared": any(v >= 2 for v in indeg.values()),
        "list_only": bool(list_only & referenced),
        "nested": any(nd.get("N") for nd in nodes),
        "returns_none": any(nd.get("mute") for nd in nodes),
    }


def extend(prog, nodes, specs, by_object):
    """Add further commands to an existing program (the documented 'modify and run again' workflow): each spec
    references earlier commands -- by result name or as Command objects -- and becomes a new node of the model."""
    for spec in specs:
        n = len(nodes)
        node = {}
        if spec.get("A") is not None:
            node["A"] = spec["A"] % n
        if spec.get("L") is not None:
            node["L"] = [c % n for c in spec["L"]]
        if spec.get("N") is not None:
            node["N"] = [[c % n for c in inner] for inner in spec["N"]]
        ref = (lambda c: prog.commands[name(c)]) if by_object else name
        args = {}
        if "A" in node:
            args["A"] = ref(node["A"])
        if "L" in node:
            args["L"] = [ref(c) for c in node["L"]]
        if "N" in node:
            args["N"] = [[ref(c) for c in inner] for inner in node["N"]]
        prog.add_command(prog.find_command_class("Node"), name(n), args)
        nodes.append(node)


def check_case(case, rec):
    if "deep" in case:
        case = dict(case, **expand_deep(case["deep"]))
        rec.label("deep:%d" % case["deep"]["n"])
    nodes = list(case["nodes"])
    n = len(nodes)
    vlog.reset(cap=40 * (n + 10) + 2000)  # every command is entered once (two log entries): far below the cap
    try:
        prog = build(case)
    except Exception as exc:
        return [Failure("build_raises:%s" % type(exc).__name__, "%r\n%s" % (exc, source_text(nodes, case["order"])))]
    cls = shape_class(case)
    sc = "+".join(k for k, v in sorted(cls.items()) if v) or "plain"
    commands = prog.commands
    if case.get("drop_program"):
        # the caller keeps the commands and lets go of the Program object (a loader that returns program.commands):
        # reading a result still evaluates everything it depends on
        import gc

        del prog
        gc.collect()
        rec.label("program_object_dropped")
    executed = set()
    ran = False
    post_run_steps = 0
    fails = []

    def counts():
        c = {}
        for ev, nm in vlog.LOG:
            if ev == "enter":
                c[nm] = c.get(nm, 0) + 1
        return c

    for si, step in enumerate(case["steps"]):
        before = len(vlog.LOG)
        executed_before = set(executed)
        try:
            if step == "run":
                prog.run()
                want = set(range(len(nodes)))
            elif step[0] == "rebind":
                # a command that has not run yet is pointed at another input (its Argument is given a new value): from then
                # on it is that result the command is fed
                i = step[1] % n
                if i in executed or nodes[i].get("A") is None or i == 0 or case.get("drop_program") or nodes[i].get("typed"):
                    continue
                j = step[2] % i
                if nodes[j].get("num"):
                    continue
                arg = [a for a in commands[name(i)].arguments if a.name == "A"][0]
                arg.value = commands[name(j)] if case.get("build") == "api_objects" else name(j)
                nodes[i] = dict(nodes[i], A=j)
                want = set(executed)
                rec.label("argument_rebound")
            elif step[0] == "grow_late":
                # a model assembled consumer first: the consumer is looked at while the command it refers to does not
                # exist yet (that read is refused), then the missing command is added and work goes on
                if case.get("build") == "api_objects" or case.get("drop_program"):
                    continue
                from mpilot.exceptions import MPilotError

                m = len(nodes)
                consumer = {"A": m, "L": [step[1] % m]}
                prog.add_command(prog.find_command_class("Node"), name(m + 1), {"A": name(m), "L": [name(consumer["L"][0])]})
                try:
                    commands[name(m + 1)].result
                    fails.append(Failure("incomplete_model_read_succeeds|%s" % sc, "step %d" % si))
                    break
                except MPilotError:
                    pass
                prog.add_command(prog.find_command_class("Src"), name(m), {"V": 40 + m})
                nodes.append({"src": True, "V": 40 + m})
                nodes.append(consumer)
                n = len(nodes)
                allowed = executed | deps(nodes, consumer["L"][0])  # a refused read may have evaluated what did exist
                want = set(int(k[1:]) for k in counts()) & allowed | executed
                rec.label("grow_late")
            elif step[0] == "extend":
                extend(prog, nodes, step[1], case.get("build") == "api_objects")
                n = len(nodes)
                want = set(executed)  # adding commands executes nothing
                rec.label("extended_after_steps" if si else "extended_first")
            else:
                op, i = step
                i = i % n
                r = commands[name(i)].result
                if op == "read_twice":
                    r2 = commands[name(i)].result
                    if r2 != r:
                        fails.append(Failure("result_changes_between_reads|%s" % sc, "two reads of %s gave %r and %r" % (name(i), r, r2)))
                want = executed | deps(nodes, i)
                exp = expected_term(nodes, i)
                if r != exp:
                    fails.append(Failure("wrong_result|%s" % sc, "%s = %r, expected %r\n%s" % (name(i), r, exp, source_text(nodes, case["order"]))))
        except Exception as exc:
            fails.append(Failure("step_raises:%s|%s" % (type(exc).__name__, sc), "step %d %r: %r\n%s" % (si, step, exc, source_text(nodes, case["order"]))))
            break
        c = counts()
        over = [k for k, v in c.items() if v > 1]
        if over:
            fails.append(Failure("executed_more_than_once|%s" % sc, "%s executed %d times after step %d %r\n%s" % (
                over[0], c[over[0]], si, step, source_text(nodes, case["order"]))))
            break
        now = set(int(k[1:]) for k in c)
        if now != want:
            missing = sorted(want - now)
            extra = sorted(now - want)
            kind = "not_executed" if missing else "executed_unrequested"
            fails.append(Failure("%s|%s" % (kind, sc), "after step %d %r: missing %r extra %r\n%s" % (
                si, step, [name(i) for i in missing], [name(i) for i in extra], source_text(nodes, case["order"]))))
            break
        if ran:
            post_run_steps += 1
            if want == executed_before and len(vlog.LOG) != before:
                fails.append(Failure("executes_after_run|%s" % sc, "step %d %r appended %r" % (si, step, vlog.LOG[before:])))
                break
        executed = now
        if step == "run":
            ran = True
    if not fails and ran:
        memo = {}
        for i in sorted(executed):
            r = peek(commands[name(i)])
            if r != expected_term(nodes, i, memo):
                fails.append(Failure("wrong_result|%s" % sc, "%s = %r, expected %r\n%s" % (
                    name(i), r, expected_term(nodes, i, memo), source_text(nodes, case["order"]))))
                break
    if any(nd.get("typed") for nd in nodes):
        rec.label("typed_references")
    rec.label("shape:" + sc)
    rec.label("build:" + case.get("build", "source"))
    if "deep" in case:
        rec.nontrivial_case(case["deep"])
    elif cls["shared"] and cls["list_only"] and post_run_steps >= 1:
        rec.nontrivial_case(case)
        rec.label("nontrivial", sample=case if n <= 4 and len(case["steps"]) <= 3 else None)
    return fails


# ----------------------------------------------------------------------------------- enumeration

def realise(j, refs, kinds):
    """Node j referencing `refs` (earlier indices), edge k realised as kinds[k] in {"d", "l", "n"}."""
    node = {}
    direct = [r for r, k in zip(refs, kinds) if k == "d"]
    for key, r in zip(("A", "B", "C"), direct):
        node[key] = r
    ls = [r for r, k in zip(refs, kinds) if k == "l"]
    if ls:
        node["L"] = ls
    ns = [r for r, k in zip(refs, kinds) if k == "n"]
    if ns:
        node["N"] = [ns[:1], ns[1:]] if len(ns) > 1 else [ns]
    return node


def small_dags(ctx):
    top = 3 if ctx.quick else 4
    scripts = [["run", "run", ["read", 0]], [["read_twice", 99], "run", ["read", 1], "run"]]
    grow = ["run", ["extend", [{"A": 0}, {"L": [1, 0], "N": [[2]]}]], "run", ["read", 1], "run"]
    late = [["grow_late", 0], "run", ["read", 99], ["grow_late", 1], ["read_twice", 98], "run"]
    rebound = [["rebind", 2, 0], ["rebind", 1, 0], ["read", 1], ["rebind", 2, 1], "run", "run"]
    for n in range(1, top + 1):
        ref_choices = []
        for j in range(n):
            subsets = []
            for r in range(j + 1):
                subsets.extend(itertools.combinations(range(j), r))
            ref_choices.append(subsets)
        for refsets in itertools.product(*ref_choices):
            n_edges = sum(len(r) for r in refsets)
            if n_edges <= 3:
                kind_sets = list(itertools.product("dln", repeat=n_edges))
            else:
                kind_sets = [tuple("d" * n_edges), tuple("l" * n_edges), tuple("n" * n_edges)] + [
                    tuple("dln"[(e * 7 + s) % 3] for e in range(n_edges)) for s in range(5)]
            for kinds in kind_sets:
                nodes, pos = [], 0
                for j, refs in enumerate(refsets):
                    nodes.append(realise(j, list(refs), kinds[pos:pos + len(refs)]))
                    pos += len(refs)
                variants = [nodes]
                for m in range(n):  # the same graph with command m returning None
                    variants.append([dict(nd, mute=True) if k == m else nd for k, nd in enumerate(nodes)])
                for vi, vnodes in enumerate(variants):
                    for order in itertools.permutations(range(n)):
                        for si, steps in enumerate(scripts):
                            if vi and (si + sum(order[:1]) + vi) % 2:
                                continue  # half of the (order, script) pairs for the None-returning variants
                            yield {"nodes": vnodes, "order": list(order), "build": "source" if si == 0 else "api", "steps": steps}
                    if vi == 0:
                        yield {"nodes": vnodes, "order": list(range(n)), "build": "api", "steps": grow}
                        yield {"nodes": vnodes, "order": list(range(n)), "build": "source", "steps": grow[1:]}
                        yield {"nodes": vnodes, "order": list(range(n)), "build": "api" if n % 2 else "source", "steps": late}
                        if n >= 2:
                            yield {"nodes": vnodes, "order": list(range(n))[::-1], "build": ["source", "api", "api_objects"][n % 3], "steps": rebound}
                        yield {"nodes": vnodes, "order": list(range(n)), "build": "api_objects", "steps": scripts[1]}
                        yield {"nodes": vnodes, "order": list(range(n)), "build": "api_shared_lists", "steps": scripts[0]}


def deep_cases(ctx):
    for n in ((40, 400) if ctx.quick else (40, 150, 400, 1200, 3000)):
        for style in ("chain", "list_chain", "nested_chain", "ladder"):
            for order in ("forward", "reversed", "interleaved"):
                # the second script reads a result near the source before anything was run: that part of the model is then
                # finished when run() starts, everything downstream of it is not
                for build, steps in (("source", ["run", ["read", n - 1], "run"]), ("api", [["read", 12], "run", ["read_twice", n - 2], "run"]),
                                     ("source", ["run", ["extend", [{"A": n - 1}, {"L": [n, 3]}]], "run", ["read", n + 1]])):
                    yield {"deep": {"n": n, "style": style, "order": order}, "build": build, "steps": steps}
                if style in ("chain", "list_chain"):
                    for meta in ("first", "last"):
                        yield {"deep": {"n": n, "style": style, "order": order, "meta": meta}, "build": "source" if meta == "first" else "api",
                               "steps": ["run", ["read", n - 1]]}


@st.composite
def dag_cases(draw):
    n = draw(st.integers(2, 12))
    nodes = []
    for j in range(n):
        if j == 0 or draw(st.integers(0, 5)) == 0:
            nodes.append({"src": True, "V": j} if draw(st.booleans()) else ({"mute": True} if draw(st.integers(0, 3)) == 0 else {}))
            continue
        node = {}
        cand = st.integers(0, j - 1)
        hub = draw(cand)  # shared sub-results: bias towards one hub
        pick = st.one_of(cand, st.just(hub))
        for key in ("A", "B", "C"):
            if draw(st.integers(0, 2)) == 0:
                node[key] = draw(pick)
        if draw(st.booleans()):
            node["L"] = draw(st.lists(pick, max_size=4))
        if draw(st.integers(0, 2)) == 0:
            node["N"] = draw(st.lists(st.lists(pick, max_size=3), max_size=3))
        if draw(st.integers(0, 5)) == 0:
            node["mute"] = True
        if draw(st.integers(0, 3)) == 0:
            node["meta"] = draw(st.sampled_from(["first", "last"]))
        nodes.append(node)
    typed = draw(st.integers(0, 2)) == 0
    if typed:
        # references with a declared result type: number-typed leaves consumed through text-typed and number-typed
        # parameters by several commands -- every consumer is fed the leaf's own finished result
        base = len(nodes)
        k = draw(st.integers(1, 3))
        for _ in range(k):
            nodes.append({"num": True, "V": draw(st.sampled_from([3, 2.5, 0, -1, 10 ** 12, 0.1]))})
        pick = st.integers(base, base + k - 1)
        for _ in range(draw(st.integers(2, 4))):
            node = {"typed": True}
            if draw(st.booleans()):
                node["TS"] = draw(pick)
            if draw(st.booleans()):
                node["TN"] = draw(pick)
            if draw(st.booleans()):
                node["TL"] = draw(st.lists(pick, max_size=3))
            nodes.append(node)
        nodes.append({"A": draw(pick), "L": [draw(st.integers(base, len(nodes) - 1)) for _ in range(draw(st.integers(0, 3)))]})
        n = len(nodes)
    order = list(draw(st.permutations(list(range(n)))))
    steps = draw(st.lists(st.one_of(st.just("run"), st.tuples(st.sampled_from(["read", "read_twice"]), st.integers(0, 40)).map(list)),
                          min_size=1, max_size=12))
    if "run" not in steps and draw(st.booleans()):
        steps.insert(draw(st.integers(0, len(steps))), "run")
    if draw(st.integers(0, 2)) == 0:
        # the program grows between runs
        ints = st.integers(0, 40)
        spec = st.fixed_dictionaries({}, optional={"A": ints, "L": st.lists(ints, max_size=3), "N": st.lists(st.lists(ints, max_size=2), max_size=2)})
        for _ in range(draw(st.integers(1, 2))):
            steps.insert(draw(st.integers(0, len(steps))), ["extend", draw(st.lists(spec, min_size=1, max_size=3))])
        if draw(st.booleans()):
            steps.append("run")
    if draw(st.integers(0, 3)) == 0:
        for _ in range(draw(st.integers(1, 2))):
            steps.insert(draw(st.integers(0, len(steps))), ["grow_late", draw(st.integers(0, 40))])
        steps.append("run")
    if draw(st.integers(0, 3)) == 0:
        for _ in range(draw(st.integers(1, 3))):
            steps.insert(draw(st.integers(0, max(0, len(steps) - 1))), ["rebind", draw(st.integers(0, 40)), draw(st.integers(0, 40))])
        steps.append("run")
    builds = ["source", "api", "api_objects"] + ([] if typed else ["api_shared_lists"])
    case = {"nodes": nodes, "order": order, "build": draw(st.sampled_from(builds)), "steps": steps}
    if draw(st.integers(0, 5)) == 0:
        case["drop_program"] = True
        case["steps"] = [x for x in steps if isinstance(x, list) and x[0] in ("read", "read_twice")] or [["read", n - 1]]
    return case


# ----------------------------------------------------------------------------------- built-in commands

def check_builtin(model, rec):
    """The same claim observed on the built-in commands: every command of a generated EEMS model executes exactly
    once during run(), and a second run() or result reads execute nothing."""
    import os
    import shutil
    import tempfile

    from mpilot.program import Program

    from ..gen import models as M
    from . import c12

    c12.install_wrappers()
    tmp = tempfile.mkdtemp(prefix="vcheck-c01-")
    try:
        M.write_table(model, os.path.join(tmp, "input.csv"))
        text = M.source(model)
        del c12.EXEC_LOG[:]
        try:
            prog = Program.from_source(text, working_dir=tmp)
            prog.run()
        except Exception as exc:
            rec.exclude("model_does_not_run:%s" % type(exc).__name__)
            return []
        own = {}
        for cls_name, result_name in c12.EXEC_LOG:
            if type(prog.commands[result_name]).__name__ == cls_name:
                own[result_name] = own.get(result_name, 0) + 1
        fails = []
        names = [n["name"] for n in model["nodes"]]
        bad = [n for n in names if own.get(n, 0) != 1]
        if bad:
            fails.append(Failure("builtin:execution_count", "%s executed %d times\n%s" % (bad[0], own.get(bad[0], 0), text)))
        before = len(c12.EXEC_LOG)
        prog.run()
        for n in names:
            prog.commands[n].result
        if len(c12.EXEC_LOG) != before:
            fails.append(Failure("builtin:executes_after_run", "%r\n%s" % (c12.EXEC_LOG[before:][:4], text)))
        indeg = {}
        for nd in model["nodes"]:
            for i in set(nd.get("inputs", [])):
                indeg[i] = indeg.get(i, 0) + 1
        rec.label("builtin_model")
        if any(v >= 2 for v in indeg.values()):
            rec.nontrivial_case(["builtin", model])
            rec.label("builtin_shared_intermediate")
        return fails
    finally:
        shutil.rmtree(tmp, ignore_errors=True)


PARTS = {"dag": check_case, "builtin": check_builtin}


def run_shard(ctx, rec):
    from ..gen import models as M

    drive_enum(ctx, rec, "dag", small_dags(ctx), check_case, exhaustive=True)
    drive_enum(ctx, rec, "dag", deep_cases(ctx), check_case, exhaustive=True, tag="dag/deep")
    drive(ctx, rec, "dag", dag_cases(), check_case, ctx.n(3000, 80000))
    drive(ctx, rec, "builtin", M.typed_models(max_nodes=8, clean=True), check_builtin, ctx.n(600, 15000))
