from mpilot import params
from mpilot.commands import Command

from vcheck import vlog


class Src(Command):
    """A leaf: returns the term [name, V]."""

    inputs = {"V": params.NumberParameter()}
    output = params.Parameter()

    def execute(self, **kwargs):
        vlog.LOG.append(("enter", self.result_name))
        vlog.LOG.append(("exit", self.result_name))
        return [self.result_name, kwargs["V"]]


class Node(Command):
    """Returns the term [name, [results of all referenced commands, in parameter order A, B, C, L..., N...]]."""

    inputs = {
        "A": params.ResultParameter(required=False),
        "B": params.ResultParameter(required=False),
        "C": params.ResultParameter(required=False),
        "L": params.ListParameter(params.ResultParameter(), required=False),
        "N": params.ListParameter(params.ListParameter(params.ResultParameter()), required=False),
    }
    output = params.Parameter()

    def execute(self, **kwargs):
        vlog.LOG.append(("enter", self.result_name))
        children = []
        for key in ("A", "B", "C"):
            if key in kwargs:
                children.append(kwargs[key].result)
        for c in kwargs.get("L", []):
            children.append(c.result)
        for inner in kwargs.get("N", []):
            for c in inner:
                children.append(c.result)
        vlog.LOG.append(("exit", self.result_name))
        return [self.result_name, children]


class Mute(Node):
    """A side-effect-only step: references like Node, logs its execution, returns None."""

    inputs = dict(Node.inputs)
    output = params.Parameter()

    def execute(self, **kwargs):
        super(Mute, self).execute(**kwargs)
        return None


class NoOut(Command):
    """A command whose class declares no output kind at all."""

    inputs = {"V": params.NumberParameter(required=False)}

    def execute(self, **kwargs):
        vlog.LOG.append(("enter", self.result_name))
        vlog.LOG.append(("exit", self.result_name))
        return kwargs.get("V", 0)


class Kinds(Command):
    """One parameter of every parameter class; returns the cleaned keyword arguments (references by name)."""

    inputs = {
        "S": params.StringParameter(required=False),
        "Num": params.NumberParameter(required=False),
        "Flag": params.BooleanParameter(required=False),
        "P": params.PathParameter(must_exist=False, required=False),
        "T": params.DataTypeParameter(required=False),
        "NumList": params.ListParameter(params.NumberParameter(), required=False),
        "StrList": params.ListParameter(params.StringParameter(), required=False),
        "Nested": params.ListParameter(params.ListParameter(params.NumberParameter()), required=False),
        "R": params.ResultParameter(required=False),
        "RList": params.ListParameter(params.ResultParameter(), required=False),
    }
    output = params.Parameter()

    def execute(self, **kwargs):
        vlog.LOG.append(("enter", self.result_name))

        def plain(v):
            if isinstance(v, Command):
                return "@" + v.result_name
            if isinstance(v, (list, tuple)):
                return [plain(x) for x in v]
            if isinstance(v, type):
                return "type:" + v.__name__
            return v

        vlog.LOG.append(("exit", self.result_name))
        return {k: plain(v) for k, v in kwargs.items() if k != "Metadata"}


class OddError(Exception):
    """An exception class of a plugin's own, derived directly from Exception."""


def _raise(kind):
    import csv

    import numpy

    if kind == "UnicodeDecodeError":
        b"\xff".decode("utf-8")
    if kind == "RecursionError":
        def f(n):
            return f(n + 1) + 1
        f(0)
    classes = {"csv.Error": csv.Error, "OddError": OddError, "MaskError": numpy.ma.MaskError, "UserWarning": UserWarning}
    cls = classes.get(kind) or getattr(__import__("builtins"), kind)
    raise cls("raised by a plugin command: %s" % kind)


class Raiser(Command):
    """A plugin command whose execute() fails with the exception class named by Kind."""

    inputs = {"Kind": params.StringParameter(), "After": params.ResultParameter(required=False)}
    output = params.Parameter()

    def execute(self, **kwargs):
        vlog.LOG.append(("enter", self.result_name))
        if "After" in kwargs:
            kwargs["After"].result
        _raise(kwargs["Kind"])


class NumSrc(Command):
    """A leaf whose declared output is a number: returns V itself."""

    inputs = {"V": params.NumberParameter()}
    output = params.NumberParameter()

    def execute(self, **kwargs):
        vlog.LOG.append(("enter", self.result_name))
        vlog.LOG.append(("exit", self.result_name))
        return kwargs["V"]


class Typed(Command):
    """References with a declared result type (a text-typed parameter also accepts number results): returns
    [name, [the finished results it was fed, in the order TS, TN, TL...]] exactly as it received them."""

    inputs = {
        "TS": params.ResultParameter(params.StringParameter(), required=False),
        "TN": params.ResultParameter(params.NumberParameter(), required=False),
        "TL": params.ListParameter(params.ResultParameter(params.StringParameter()), required=False),
    }
    output = params.Parameter()

    def execute(self, **kwargs):
        vlog.LOG.append(("enter", self.result_name))
        got = []
        for key in ("TS", "TN"):
            if key in kwargs:
                got.append(kwargs[key].result)
        for c in kwargs.get("TL", []):
            got.append(c.result)
        vlog.LOG.append(("exit", self.result_name))
        return [self.result_name, got]
