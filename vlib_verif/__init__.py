"""Test command library for the verification harness (loaded through Program(libraries=(..., "vlib_verif")))."""
