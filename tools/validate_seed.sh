#!/bin/bash
# tools/validate_seed.sh <dir with patch.diff and demo.py> <check id> [more check ids]
# Confirms in a scratch copy of /repo (outside /repo and /verif): patch applies, 66 tests pass with it,
# demo exits 1 with it and 0 without it; then runs the named checks against the patched copy.
d=$(realpath "$1"); shift
scratch=$(mktemp -d /tmp/vseed-XXXXXX)
trap 'rm -rf "$scratch"' EXIT
rsync -a --exclude .git --exclude __pycache__ /repo/ "$scratch/clean/"
rsync -a --exclude .git --exclude __pycache__ /repo/ "$scratch/patched/"
(cd "$scratch/patched" && patch -p1 -s < "$d/patch.diff") || { echo "PATCH FAILED"; exit 3; }
t=$(cd "$scratch/patched" && PYTHONDONTWRITEBYTECODE=1 /venv/bin/python -m pytest -q -p no:cacheprovider 2>&1 | tail -1)
echo "tests with patch: $t"
(cd "$scratch/clean" && PYTHONDONTWRITEBYTECODE=1 PYTHONPATH="$scratch/clean" /venv/bin/python "$d/demo.py" >/dev/null 2>&1); echo "demo on clean tree: exit $?"
(cd "$scratch/patched" && PYTHONDONTWRITEBYTECODE=1 PYTHONPATH="$scratch/patched" /venv/bin/python "$d/demo.py" >/dev/null 2>&1); echo "demo on patched tree: exit $?"
for id in "$@"; do
  out=$(VERIF_REPO="$scratch/patched" VERIF_OUT="$scratch/out" /verif/check "$id" 2>&1)
  rc=$?
  echo "check $id on patched tree: exit $rc ($(echo "$out" | grep -c '^VIOLATION') violation lines)"
  echo "$out" | grep '^violation' | cut -c1-220 | head -3
done
