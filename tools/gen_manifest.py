#!/usr/bin/env python3
"""Regenerate MANIFEST.json from the property modules that exist (run with ./check's environment not needed)."""
import ast
import json
import os
import re

HERE = os.path.dirname(os.path.dirname(os.path.abspath(__file__)))
ATTRS = ("ID", "LEVEL", "LEVEL_TEXT", "LEVEL_NOTE", "TECHNIQUE", "DESIGN_REF")


def module_attrs(path):
    tree = ast.parse(open(path).read())
    out = {}
    for node in tree.body:
        if isinstance(node, ast.Assign) and len(node.targets) == 1 and isinstance(node.targets[0], ast.Name):
            name = node.targets[0].id
            if name in ATTRS:
                out[name] = ast.literal_eval(node.value)
    return out


def main():
    props = [json.loads(l) for l in open(os.path.join(HERE, "properties.jsonl"))]
    na_path = os.path.join(HERE, "tools", "not_applicable.json")
    na_reasons = json.load(open(na_path)) if os.path.exists(na_path) else {}
    checks, na = [], []
    for p in props:
        pid = p["id"]
        path = os.path.join(HERE, "vcheck", "props", pid.lower() + ".py")
        if not os.path.exists(path) or pid in na_reasons:
            na.append({"property_id": pid, "reason": na_reasons.get(pid, "check not built yet (planned in DESIGN.md section 3)")})
            continue
        a = module_attrs(path)
        missing = [k for k in ATTRS if k not in a]
        if missing:
            raise SystemExit("%s lacks %s" % (path, missing))
        checks.append({
            "property_id": pid,
            "quick_cmd": "./check %s --tier quick" % pid,
            "thorough_cmd": "./check %s --tier thorough" % pid,
            "evidence_file": "/verif/evidence/%s.json" % pid,
            "replay_cmd_template": "./check %s --replay {path}" % pid,
            "engine": "vcheck",
            "level_claimed": {"category": a["LEVEL"], "text": a["LEVEL_TEXT"], "design_ref": a["DESIGN_REF"]},
            "level_note": a["LEVEL_NOTE"],
            "technique": a["TECHNIQUE"],
        })
    manifest = {
        "version": 1,
        "setup_cmd": "./setup.sh",
        "hooks": {
            "guard": "MPILOT_VERIF",
            "enable": "no source hooks are needed: every observation point is reached from outside (execute wrappers, "
                      "Program.commands, exceptions at the from_source()/run() boundary, click's CliRunner)",
            "baseline_off_cmd": "cd /repo && /venv/bin/python -m pytest -ra -q -p no:cacheprovider",
            "source_commits": [],
            "add_only": True,
        },
        "engines": [{
            "name": "vcheck",
            "path": "vcheck/",
            "serves_properties": [c["property_id"] for c in checks],
            "kind_free_text": "property-based testing: Hypothesis strategies / operation sequences and exhaustive "
                              "enumeration of finite domains against explicit oracles (exact-rational reference "
                              "interpreter, round trips, metamorphic relations, invariants over histories); failures "
                              "shrunk to JSON replay files re-executed without Hypothesis",
        }],
        "checks": checks,
        "not_applicable": na,
        "notes": "All checks run /repo's working tree in-process under /venv/bin/python (mpilot is pure Python; nothing "
                 "to build). VERIF_SEED seeds every Hypothesis run; exit 2 = harness error.",
    }
    with open(os.path.join(HERE, "MANIFEST.json"), "w") as f:
        json.dump(manifest, f, indent=1)
        f.write("\n")
    print("checks: %d, not_applicable: %d" % (len(checks), len(na)))


if __name__ == "__main__":
    main()
