#!/bin/bash
# Sensitivity self-test: every hand-written mutant (mutants/<ID>/*.patch) and every independently seeded change
# (seeded/<dir>/patch.diff) is applied to a scratch copy of /repo and the quick tier of the owning check must report a
# violation (exit 1); NEGCTL_* mutants are equivalent changes and must stay quiet (exit 0).  Never touches /repo.
cd "$(dirname "$0")/.." || exit 2
bad=0
run() { # patch id expect
  scratch=$(mktemp -d /tmp/vself-XXXXXX)
  rsync -a --exclude .git --exclude __pycache__ /repo/ "$scratch/r/"
  if ! (cd "$scratch/r" && patch -p1 -s < "$1" >/dev/null 2>&1); then echo "PATCH-FAILED $1"; bad=1; rm -rf "$scratch"; return; fi
  VERIF_REPO="$scratch/r" VERIF_OUT="$scratch/out" ./check "$2" >/dev/null 2>&1; rc=$?
  rm -rf "$scratch"
  if [ "$rc" = "$3" ]; then echo "ok   $2 $1 (exit $rc)"; else echo "FAIL $2 $1 (exit $rc, expected $3)"; bad=1; fi
}
for p in mutants/C[0-9]*/*.patch; do
  id=$(basename "$(dirname "$p")")
  case "$(basename "$p")" in NEGCTL_*) run "$(realpath "$p")" "$id" 0 ;; *) run "$(realpath "$p")" "$id" 1 ;; esac
done
for d in seeded/*/; do
  id=$(basename "$d" | cut -c1-3)
  run "$(realpath "$d/patch.diff")" "$id" 1
done
exit $bad
