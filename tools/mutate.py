#!/venv/bin/python
"""Systematic sensitivity measurement: small syntactic mutants of mpilot/*.py.

For every mutation point (comparison / boolean / arithmetic operator swaps, constant changes, dropped .copy(), slice and
index changes, negated conditions, deleted statements) a scratch copy of /repo is mutated; mutants that the repository's
own 66 tests kill are discarded; the remaining ones are run against the checks whose anchor files include the mutated file
(quick tier, scaled down).  Output: one JSON line per mutant with its fate (killed_by_tests / killed_by:<checks> /
harness_error / survived).  Survivors are candidates for review: either equivalent mutants or behaviour no check observes.

usage: tools/mutate.py [--files a.py,b.py] [--jobs 6] [--limit N] [--out FILE] [--scale 0.35]
"""
import argparse
import ast
import copy
import json
import os
import shutil
import subprocess
import sys
import tempfile
from concurrent.futures import ThreadPoolExecutor

VERIF = os.path.dirname(os.path.dirname(os.path.abspath(__file__)))
REPO = "/repo"

CMP = {ast.Lt: ast.LtE, ast.LtE: ast.Lt, ast.Gt: ast.GtE, ast.GtE: ast.Gt, ast.Eq: ast.NotEq, ast.NotEq: ast.Eq,
       ast.Is: ast.IsNot, ast.IsNot: ast.Is, ast.In: ast.NotIn, ast.NotIn: ast.In}
BIN = {ast.Add: ast.Sub, ast.Sub: ast.Add, ast.Mult: ast.Div, ast.Div: ast.Mult}


class Mutator(ast.NodeTransformer):
    """Applies exactly one mutation: the `target`-th candidate met in traversal order."""

    def __init__(self, target):
        self.target = target
        self.count = 0
        self.description = None

    def hit(self, node, text):
        me = self.count
        self.count += 1
        if me == self.target:
            self.description = "line %s: %s" % (getattr(node, "lineno", "?"), text)
            return True
        return False

    def visit_Compare(self, node):
        self.generic_visit(node)
        for i, op in enumerate(node.ops):
            if type(op) in CMP and self.hit(node, "%s -> %s" % (type(op).__name__, CMP[type(op)].__name__)):
                node.ops[i] = CMP[type(op)]()
        return node

    def visit_BoolOp(self, node):
        self.generic_visit(node)
        if self.hit(node, "and <-> or"):
            node.op = ast.Or() if isinstance(node.op, ast.And) else ast.And()
        return node

    def visit_UnaryOp(self, node):
        self.generic_visit(node)
        if isinstance(node.op, ast.Not) and self.hit(node, "drop not"):
            return node.operand
        if isinstance(node.op, ast.USub) and self.hit(node, "drop unary minus"):
            return node.operand
        return node

    def visit_BinOp(self, node):
        self.generic_visit(node)
        if type(node.op) in BIN and not isinstance(node.left, ast.Constant) or type(node.op) in BIN and not isinstance(getattr(node.left, "value", 0), str):
            if type(node.op) in BIN and self.hit(node, "%s -> %s" % (type(node.op).__name__, BIN[type(node.op)].__name__)):
                node.op = BIN[type(node.op)]()
        return node

    def visit_AugAssign(self, node):
        self.generic_visit(node)
        if type(node.op) in BIN and self.hit(node, "aug %s -> %s" % (type(node.op).__name__, BIN[type(node.op)].__name__)):
            node.op = BIN[type(node.op)]()
        return node

    def visit_Constant(self, node):
        if isinstance(node.value, bool):
            if self.hit(node, "%r -> %r" % (node.value, not node.value)):
                return ast.copy_location(ast.Constant(not node.value), node)
        elif isinstance(node.value, (int, float)):
            if self.hit(node, "%r -> %r" % (node.value, node.value + 1)):
                return ast.copy_location(ast.Constant(node.value + 1), node)
        return node

    def visit_Call(self, node):
        self.generic_visit(node)
        if isinstance(node.func, ast.Attribute) and node.func.attr in ("copy", "astype") and self.hit(node, "drop .%s()" % node.func.attr):
            return node.func.value
        if isinstance(node.func, ast.Name) and node.func.id in ("insure_fuzzy", "make_masked") and node.args and self.hit(node, "drop %s()" % node.func.id):
            return node.args[0]
        return node

    def visit_Subscript(self, node):
        self.generic_visit(node)
        sl = node.slice
        if isinstance(sl, ast.Slice) and (sl.lower is not None or sl.upper is not None) and self.hit(node, "slice bounds dropped"):
            node.slice = ast.Slice(None, None, sl.step)
        return node

    def visit_If(self, node):
        self.generic_visit(node)
        if self.hit(node, "negate if condition"):
            node.test = ast.UnaryOp(ast.Not(), node.test)
        return node

    def _stmt(self, node):
        self.generic_visit(node)
        if self.hit(node, "delete statement"):
            return ast.copy_location(ast.Pass(), node)
        return node

    def visit_Assign(self, node):
        if any(isinstance(t, ast.Name) and t.id in ("inputs", "output", "display_name", "is_fuzzy", "tokens", "precedence") or
               isinstance(t, ast.Name) and t.id.startswith("t_") for t in node.targets):
            return self.generic_visit(node)
        return self._stmt(node)

    def visit_Expr(self, node):
        if isinstance(node.value, ast.Constant) and isinstance(node.value.value, str):
            return node  # docstrings (PLY grammar rules live there)
        return self._stmt(node)

    def visit_Raise(self, node):
        return self._stmt(node)


def count_points(tree):
    m = Mutator(-1)
    m.visit(copy.deepcopy(tree))
    return m.count


def relevant_checks(relpath):
    props = [json.loads(l) for l in open(os.path.join(VERIF, "properties.jsonl"))]
    ids = [p["id"] for p in props if relpath in p["anchors"]["files"]]
    base = {"mpilot/utils.py": ["C04", "C06", "C08", "C16"], "mpilot/arguments.py": ["C11", "C15", "C20"],
            "mpilot/exceptions.py": ["C12", "C13"], "mpilot/libraries/eems/exceptions.py": ["C07", "C13"],
            "mpilot/libraries/eems/mixins.py": ["C07", "C05"], "mpilot/libraries/eems/netcdf/exceptions.py": ["C18"]}
    for i in base.get(relpath, []):
        if i not in ids:
            ids.append(i)
    return sorted(ids)


def run_mutant(job):
    relpath, k, source, scale = job
    tree = ast.parse(source)
    m = Mutator(k)
    new = m.visit(tree)
    ast.fix_missing_locations(new)
    try:
        text = ast.unparse(new)
    except Exception as exc:
        return {"file": relpath, "point": k, "fate": "unparse_failed", "detail": repr(exc)}
    scratch = tempfile.mkdtemp(prefix="vmutate-")
    try:
        subprocess.run(["rsync", "-a", "--exclude", ".git", "--exclude", "__pycache__", REPO + "/", scratch + "/r/"], check=True)
        with open(os.path.join(scratch, "r", relpath), "w") as f:
            f.write(text + "\n")
        env = dict(os.environ, PYTHONDONTWRITEBYTECODE="1")
        t = subprocess.run(["/venv/bin/python", "-m", "pytest", "-x", "-q", "-p", "no:cacheprovider"], cwd=os.path.join(scratch, "r"),
                           env=env, capture_output=True, text=True, timeout=600)
        rec = {"file": relpath, "point": k, "mutation": m.description}
        if t.returncode != 0:
            rec["fate"] = "killed_by_tests"
            return rec
        killers, harness = [], []
        for cid in relevant_checks(relpath):
            env2 = dict(os.environ, VERIF_REPO=os.path.join(scratch, "r"), VERIF_OUT=os.path.join(scratch, "out"), VERIF_BUDGET_SCALE=str(scale))
            c = subprocess.run([os.path.join(VERIF, "check"), cid, "--nshards", "2"], env=env2, capture_output=True, text=True, timeout=3600)
            if c.returncode == 1:
                killers.append(cid)
                break
            if c.returncode == 2:
                harness.append(cid + ": " + (c.stderr or c.stdout)[-300:].replace("\n", " | "))
        rec["fate"] = "killed_by:" + ",".join(killers) if killers else ("harness_error" if harness else "survived")
        if harness:
            rec["harness"] = harness
        rec["checks"] = relevant_checks(relpath)
        return rec
    except subprocess.TimeoutExpired:
        return {"file": relpath, "point": k, "mutation": m.description, "fate": "timeout"}
    finally:
        shutil.rmtree(scratch, ignore_errors=True)


def main():
    ap = argparse.ArgumentParser()
    ap.add_argument("--files", default="")
    ap.add_argument("--jobs", type=int, default=6)
    ap.add_argument("--limit", type=int, default=0)
    ap.add_argument("--stride", type=int, default=1)
    ap.add_argument("--scale", type=float, default=0.35)
    ap.add_argument("--out", default=os.path.join(VERIF, "notes", "mutation_run.jsonl"))
    args = ap.parse_args()
    files = [f for f in args.files.split(",") if f] or [
        "mpilot/commands.py", "mpilot/program.py", "mpilot/params.py", "mpilot/utils.py", "mpilot/parser/parser.py",
        "mpilot/cli/mpilot.py", "mpilot/libraries/eems/basic.py", "mpilot/libraries/eems/fuzzy.py", "mpilot/libraries/eems/mixins.py",
        "mpilot/libraries/eems/csv/io.py", "mpilot/libraries/eems/netcdf/io.py"]
    jobs = []
    for rel in files:
        src = open(os.path.join(REPO, rel)).read()
        n = count_points(ast.parse(src))
        for k in range(0, n, args.stride):
            jobs.append((rel, k, src, args.scale))
    if args.limit:
        jobs = jobs[:args.limit]
    sys.stderr.write("%d mutants\n" % len(jobs))
    os.makedirs(os.path.dirname(args.out), exist_ok=True)
    with open(args.out, "w") as out, ThreadPoolExecutor(args.jobs) as pool:
        for rec in pool.map(run_mutant, jobs):
            out.write(json.dumps(rec) + "\n")
            out.flush()
            print(rec.get("fate"), rec.get("file"), rec.get("mutation"))


if __name__ == "__main__":
    main()
