#!/bin/bash
# Robustness: under blunt "chaos" changes (mutants/CHAOS/*.patch, which make common entry points raise or return
# nonsense) every check must still end with exit 0 or 1 -- never with a harness error (exit 2).
cd "$(dirname "$0")/.." || exit 2
bad=0
for p in mutants/CHAOS/*.patch; do
  for i in 01 02 03 04 05 06 07 08 09 10 11 12 13 14 15 16 17 18 19 20; do
    scratch=$(mktemp -d /tmp/vchaos-XXXXXX)
    rsync -a --exclude .git --exclude __pycache__ /repo/ "$scratch/r/"
    pp=$(realpath "$p"); (cd "$scratch/r" && patch -p1 -s < "$pp" >/dev/null 2>&1) || echo "PATCH-FAILED $p"
    VERIF_REPO="$scratch/r" VERIF_OUT="$scratch/out" ./check "C$i" >"$scratch/log" 2>&1; rc=$?
    if [ "$rc" = 2 ]; then echo "HARNESS-ERROR C$i $(basename $p): $(grep -v '^  File' "$scratch/log" | tail -3 | tr '\n' ' ' | cut -c1-300)"; bad=1; else echo "ok C$i $(basename $p) exit $rc"; fi
    rm -rf "$scratch"
  done
done
exit $bad
