#!/venv/bin/python
"""Regenerate the table of DESIGN.md section 6.6 from seeded/*/meta.json (rows `| `seeded/…` | … |`)."""
import glob, json, os, re

here = os.path.dirname(os.path.dirname(os.path.abspath(__file__)))
rows = []
for d in sorted(glob.glob(os.path.join(here, "seeded", "C*"))):
    m = json.load(open(os.path.join(d, "meta.json")))
    esc = lambda s: s.replace("|", "\\|").replace("\n", " ")
    rows.append("| `seeded/%s` | %s | %s | %s |" % (os.path.basename(d), esc(m["change"]), esc(m["needs_to_manifest"]), esc(m["caught_by"])))
path = os.path.join(here, "DESIGN.md")
lines = open(path).read().split("\n")
idx = [i for i, l in enumerate(lines) if l.startswith("| `seeded/")]
assert idx and idx[-1] - idx[0] + 1 == len(idx), "table rows must be contiguous"
lines[idx[0]:idx[-1] + 1] = rows
open(path, "w").write("\n".join(lines))
print("%d rows" % len(rows))
