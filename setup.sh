#!/bin/bash
# Offline setup: make sure hypothesis is importable by /venv/bin/python (install from the wheelhouse if a fresh
# restore lacks it) and that the repo under test imports.  Nothing else needs building.
set -e
cd "$(dirname "$0")"
if ! /venv/bin/python -c "import hypothesis" 2>/dev/null; then
  PIP_NO_INDEX=1 /venv/bin/pip install --no-index --find-links /opt/veriftools/wheels hypothesis
fi
/venv/bin/python -c "import hypothesis, numpy, netCDF4, click, ply; print('deps ok', hypothesis.__version__)"
PYTHONPATH=/repo /venv/bin/python -c "import mpilot; print('mpilot ok')"
mkdir -p evidence replays
# Optional: atheris (libFuzzer for Python) for the coverage-guided part of C13; the check skips that part if absent.
if [ ! -d .deps/atheris ]; then
  PIP_NO_INDEX=1 /venv/bin/pip install -q --no-index --find-links /opt/veriftools/wheels --target .deps atheris >/dev/null 2>&1 || echo "atheris not installed (optional)"
fi
